package main

// Differential monitor: one generated case against a set of configurations.

import (
	"crypto/sha256"
	"encoding/base64"
	"encoding/hex"
	"encoding/json"
	"fmt"
	"sort"
	"strings"

	"github.com/teivah/majorana/risc"
)

const latMem = 309

// finding is one divergent (case, configuration) pair.
type finding struct {
	Prop   string     `json:"prop"`
	Config config     `json:"config"`
	Class  string     `json:"class"`
	Sub    string     `json:"sub,omitempty"`
	Site   string     `json:"site,omitempty"` // panic frame or tick site
	Detail string     `json:"detail"`
	Step   int        `json:"step"`
	Final  bool       `json:"final_state_differs"`
	Input  *caseInput `json:"input,omitempty"`
	KF     string     `json:"kf,omitempty"`
	Case   int        `json:"case"`
	Family string     `json:"family,omitempty"`
	Extra  string     `json:"extra,omitempty"`
	Trig   []string   `json:"triggers,omitempty"`
	Mech   []string   `json:"mechanism,omitempty"`
}

func (f finding) key() string {
	return fmt.Sprintf("%s|%s|%s|%s", f.Config.V, f.Class, subClass(f.Sub), f.Site)
}

// subClass strips the parameters of an explanation class.
func subClass(s string) string {
	if i := strings.Index(s, "("); i >= 0 {
		return s[:i]
	}
	return s
}

type memB64 []int8

func (m memB64) MarshalJSON() ([]byte, error) {
	b := make([]byte, len(m))
	for i, v := range m {
		b[i] = byte(v)
	}
	return json.Marshal(base64.StdEncoding.EncodeToString(b))
}

func (m *memB64) UnmarshalJSON(d []byte) error {
	var s string
	if err := json.Unmarshal(d, &s); err != nil {
		return err
	}
	b, err := base64.StdEncoding.DecodeString(s)
	if err != nil {
		return err
	}
	out := make([]int8, len(b))
	for i, v := range b {
		out[i] = int8(v)
	}
	*m = out
	return nil
}

// caseInput JSON form (memory as base64)
type caseInputJSON struct {
	Src  string    `json:"src"`
	Regs [32]int32 `json:"regs"`
	Mem  memB64    `json:"mem"`
}

func (c caseInput) MarshalJSON() ([]byte, error) {
	return json.Marshal(caseInputJSON{c.Src, c.Regs, memB64(c.Mem)})
}
func (c *caseInput) UnmarshalJSON(d []byte) error {
	var j caseInputJSON
	if err := json.Unmarshal(d, &j); err != nil {
		return err
	}
	c.Src, c.Regs, c.Mem = j.Src, j.Regs, []int8(j.Mem)
	return nil
}

func (c caseInput) hash() string {
	h := sha256.New()
	h.Write([]byte(c.Src))
	for _, r := range c.Regs {
		fmt.Fprintf(h, "%d,", r)
	}
	b := make([]byte, len(c.Mem))
	for i, v := range c.Mem {
		b[i] = byte(v)
	}
	h.Write(b)
	return hex.EncodeToString(h.Sum(nil))[:16]
}

type diffOpts struct {
	Prop        string
	ExpectErr   bool // error-path family: the reference errs, the machine must return an error value
	MaxSteps    int
	Lockstep    bool
	Repeats     int // run each config this many times and require identical observations
	StopAtFirst bool
	TermOnly    bool // C07: only termination verdicts (panic, budget, error, cycle bound)
}

type diffOut struct {
	Discarded    bool
	RefErr       string
	RefSteps     int
	Runs         int
	Findings     []finding
	Stats        map[string]int64
	Nontrivial   bool
	MaxRatio     float64
	MaxTickRatio float64
	Triggers     []string
}

func budgetFor(steps, plen int) int64 {
	return int64(8) * latMem * int64(steps+plen+64)
}

// refNontrivial: executes >= 5 instructions and has a taken branch, a memory
// access or a register written twice.
func refNontrivial(p rProg, ref *refState) bool {
	if ref.Steps < 5 {
		return false
	}
	writes := map[int]int{}
	for _, t := range ref.Trace {
		in := p.Ins[t.Idx]
		if t.Res.Taken || t.Res.Size != 0 {
			return true
		}
		if t.Res.WroteReg && in.Rd != 0 {
			writes[in.Rd]++
			if writes[in.Rd] >= 2 {
				return true
			}
		}
	}
	return false
}

func obsDigest(o *observation) string {
	h := sha256.New()
	fmt.Fprintf(h, "%s|%s|%d|", o.Verdict, o.Err, o.Cycles)
	for _, r := range o.Regs {
		fmt.Fprintf(h, "%d,", r)
	}
	b := make([]byte, len(o.Mem))
	for i, v := range o.Mem {
		b[i] = byte(v)
	}
	h.Write(b)
	return hex.EncodeToString(h.Sum(nil))[:16]
}

func finalDiff(ref *refState, o *observation) string {
	var diffs []string
	for i := 1; i < 32; i++ {
		if o.Regs[i] != ref.Regs[i] {
			diffs = append(diffs, fmt.Sprintf("%s=%d(want %d)", regNames[i], o.Regs[i], ref.Regs[i]))
		}
	}
	if o.Regs[0] != 0 {
		diffs = append(diffs, fmt.Sprintf("zero=%d", o.Regs[0]))
	}
	nm := 0
	for i := range ref.Mem {
		if i < len(o.Mem) && o.Mem[i] != ref.Mem[i] {
			if nm < 4 {
				diffs = append(diffs, fmt.Sprintf("mem[%d]=%d(want %d)", i, o.Mem[i], ref.Mem[i]))
			}
			nm++
		}
	}
	if nm > 4 {
		diffs = append(diffs, fmt.Sprintf("+%d more bytes", nm-4))
	}
	return strings.Join(diffs, " ")
}

// diffCase runs one input on the given configurations.
func diffCase(in caseInput, cfgs []config, o diffOpts) diffOut {
	out := diffOut{Stats: map[string]int64{}}
	if o.MaxSteps == 0 {
		o.MaxSteps = 20000
	}
	var p rProg
	perr := func() (e string) {
		defer func() {
			if r := recover(); r != nil {
				e = fmt.Sprint(r)
			}
		}()
		p = refParse(in.Src)
		return ""
	}()
	if perr != "" {
		out.Discarded = true
		out.RefErr = "refparse: " + perr
		return out
	}
	if len(p.Ins) >= 250 {
		out.Discarded = true
		out.RefErr = "too long"
		return out
	}
	ref := refRun(p, in.Regs, in.Mem, o.MaxSteps, true)
	out.RefSteps = ref.Steps
	out.RefErr = ref.Err
	defined := ref.Err == "div0" || ref.Err == "rem0" || ref.Err == "label"
	if o.ExpectErr {
		if !defined {
			out.Discarded = true
			return out
		}
	} else if ref.Err != "" {
		out.Discarded = true
		return out
	}
	out.Nontrivial = refNontrivial(p, ref)
	out.Triggers = caseTriggers(p, ref)
	budget := budgetFor(ref.Steps, len(p.Ins))
	add := func(f finding) {
		f.Prop = o.Prop
		f.Trig = append(append([]string{}, out.Triggers...), f.Mech...)
		out.Findings = append(out.Findings, f)
	}
	for _, c := range cfgs {
		reps := o.Repeats
		if reps < 1 {
			reps = 1
		}
		var first string
		schedules := map[string]bool{}
		for rep := 0; rep < reps; rep++ {
			obs := runMachine(c, in.Src, in.Regs, in.Mem, runOpts{Budget: budget, Log: o.Lockstep, MaxLog: 400000})
			out.Runs++
			out.Stats["runs:"+c.V]++
			out.Stats["ticks"] += obs.Ticks
			for s, n := range obs.Sites {
				if n > 0 {
					out.Stats[fmt.Sprintf("site%d:%s", s, c.V)] += n
				}
			}
			if reps > 1 && o.Lockstep {
				schedules[scheduleDigest(obs.Log)] = true
				if rep == reps-1 {
					out.Stats["repeated-configs"]++
					out.Stats["distinct-schedules-observed"] += int64(len(schedules))
				}
			}
			if rep == 0 {
				first = obsDigest(&obs)
			} else if d := obsDigest(&obs); d != first {
				add(finding{Config: c, Class: "nondeterministic", Detail: fmt.Sprintf("repetition %d differs from repetition 0 (digest %s vs %s; verdict %s cycles %d)", rep, d, first, obs.Verdict, obs.Cycles)})
				break
			}
			switch obs.Verdict {
			case "parse":
				add(finding{Config: c, Class: "parse-error", Detail: obs.Err})
				continue
			case "panic":
				add(finding{Config: c, Class: "panic", Site: frameFunc(obs.Frame), Detail: obs.Panic + " at " + obs.Frame})
				continue
			case "budget":
				var mech []string
				if cls := variantClass(c.V); o.Lockstep || cls >= 6 {
					// what did the machine do before it stopped making progress? (a termination-only
					// check records no events: the hanging run is repeated once with the event log on)
					lobs := &obs
					if !o.Lockstep {
						again := runMachine(c, in.Src, in.Regs, in.Mem, runOpts{Budget: budget, Log: true, MaxLog: 400000})
						lobs = &again
					}
					dyn, st, _ := buildDyn(c, lobs.Log)
					if st.SquashedRegWB > 0 && (c.V == "mvp6-0" || c.V == "mvp6-1") {
						mech = append(mech, "wrong-path-regwrite")
					}
					if st.SquashedStores > 0 {
						mech = append(mech, "wrong-path-store")
					}
					if st.FlushOlderUnexecuted {
						mech = append(mech, "flush-with-older-unexecuted")
					}
					if st.SquashedRegWB > 0 && c.V == "mvp6-2" {
						// MVP-6.2 keeps one uncommitted value per register: the squashed write replaced an older one
						mech = append(mech, "wrong-path-transaction-write")
					}
					for _, m := range mechanismSignatures(p, dyn, lobs) {
						if m == "commit-with-older-in-flight" {
							mech = append(mech, m)
						}
					}
				}
				add(finding{Config: c, Class: "budget", Mech: mech, Site: tickSiteName(obs.Site), Detail: fmt.Sprintf("tick budget %d exhausted in the %s (tick site %d; reference executed %d instructions)", budget, tickSiteName(obs.Site), obs.Site, ref.Steps)})
				continue
			}
			if o.ExpectErr {
				if obs.Verdict != "err" {
					add(finding{Config: c, Class: "error-not-reported", Detail: fmt.Sprintf("reference stops with %s; machine returned nil error (cycles %d)", ref.Err, obs.Cycles)})
				}
				continue
			}
			if obs.Verdict == "err" {
				add(finding{Config: c, Class: "unexpected-error", Detail: obs.Err})
				continue
			}
			// cycle bound (C07) and positivity
			bound := int64(latMem) * int64(ref.Steps+len(p.Ins)+64)
			ratio := float64(obs.Cycles) / float64(bound)
			if ratio > out.MaxRatio {
				out.MaxRatio = ratio
			}
			if tr := float64(obs.Ticks) / float64(bound); tr > out.MaxTickRatio {
				out.MaxTickRatio = tr
			}
			if int64(obs.Cycles) > 8*bound || obs.Cycles <= 0 {
				add(finding{Config: c, Class: "cycle-bound", Detail: fmt.Sprintf("returned cycles %d outside (0, %d]", obs.Cycles, 8*bound)})
			}
			if o.TermOnly {
				continue
			}
			fd := finalDiff(ref, &obs)
			var wrongPath map[int][]int32
			var lsMech []string
			var lsDyn []dynIns
			var lsSurv []int
			if o.Lockstep {
				ls := lockstep(c, p, ref, &obs)
				accStats(out.Stats, c, ls.Stats)
				wrongPath = squashedRegVals(ls.Dyn, &obs)
				lsMech = ls.Mech
				lsDyn, lsSurv = ls.Dyn, ls.Surv
				if !ls.OK {
					add(finding{Config: c, Class: ls.Class, Sub: ls.Sub, Detail: ls.Detail, Step: ls.Step, Final: fd != "", Extra: fd, Mech: ls.Mech})
					if fd == "" {
						out.Stats["masked-divergence:"+c.V]++
					}
					continue
				}
			}
			if fd != "" {
				if o.Lockstep && lsSurv != nil && len(lsSurv) >= len(ref.Trace) {
					var wrong []int
					for r := 1; r < 32; r++ {
						if obs.Regs[r] != ref.Regs[r] {
							wrong = append(wrong, r)
						}
					}
					lsMech = append(append([]string{}, lsMech...), commitMechanisms(p, ref, lsDyn, lsSurv, &obs, wrong, len(ref.Trace))...)
				}
				add(finding{Config: c, Class: "final-state", Sub: explainFinal(p, ref, &obs, wrongPath), Detail: fd, Final: true, Step: -1, Mech: lsMech})
			}
		}
	}
	return out
}

func accStats(m map[string]int64, c config, s lsStats) {
	m["decoded"] += int64(s.Decoded)
	m["executed"] += int64(s.Executed)
	m["squashed"] += int64(s.Squashed)
	m["squashed-executed"] += int64(s.SquashedExecuted)
	m["squashed-regwb"] += int64(s.SquashedRegWB)
	m["squashed-stores"] += int64(s.SquashedStores)
	m["flushes"] += int64(s.Flushes)
	m["forwards"] += int64(s.Forwards)
	m["chained-forwards"] += int64(s.ChainedForwards)
	m["renames"] += int64(s.Renames)
}

func sortedKeys(m map[string]int64) []string {
	ks := make([]string, 0, len(m))
	for k := range m {
		ks = append(ks, k)
	}
	sort.Strings(ks)
	return ks
}

// explainFinal classifies a final-state mismatch: "stale-final" when every
// wrong register / byte holds a value it had earlier in the reference run (an
// update was lost or overwritten by an older one), otherwise "unexplained-final".
func explainFinal(p rProg, ref *refState, o *observation, wrongPath map[int][]int32) string {
	wp := false
	regHist := map[int]map[int32]bool{}
	for r := 1; r < 32; r++ {
		regHist[r] = map[int32]bool{ref.InitRegs[r]: true}
	}
	memHist := map[int32]map[int8]bool{}
	for _, t := range ref.Trace {
		in := p.Ins[t.Idx]
		if t.Res.WroteReg && in.Rd != 0 {
			regHist[in.Rd][t.Res.Val] = true
		}
		for i, v := range t.Res.Store {
			a := t.Res.Addr + int32(i)
			if memHist[a] == nil {
				memHist[a] = map[int8]bool{ref.InitMem[a]: true}
			}
			memHist[a][v] = true
		}
	}
	for r := 1; r < 32; r++ {
		if o.Regs[r] != ref.Regs[r] && !regHist[r][o.Regs[r]] {
			found := false
			for _, v := range wrongPath[r] {
				if v == o.Regs[r] {
					found = true
				}
			}
			if !found {
				return "unexplained-final"
			}
			wp = true
		}
	}
	for i := range ref.Mem {
		if i < len(o.Mem) && o.Mem[i] != ref.Mem[i] {
			h := memHist[int32(i)]
			if h == nil || !h[o.Mem[i]] {
				return "unexplained-final"
			}
		}
	}
	if wp {
		return "wrong-path-final"
	}
	return "stale-final"
}

// tickSiteName groups the tick sites by the loop that cannot end.
func tickSiteName(site int) string {
	switch site {
	case 0, 5, 6:
		return "main-loop"
	case 1:
		return "ret-drain"
	case 2, 3:
		return "flush-drain"
	case 4:
		return "final-drain"
	}
	return fmt.Sprintf("site-%d", site)
}

// frameFunc keeps the function name of a "func (file:line)" frame.
func frameFunc(frame string) string {
	if i := strings.Index(frame, " ("); i >= 0 {
		return frame[:i]
	}
	return frame
}

// scheduleDigest hashes the order in which instructions were dispatched and executed
// (sequence ids and dispatch modes), i.e. the schedule the control unit produced.
func scheduleDigest(log []risc.VerifRec) string {
	h := sha256.New()
	for _, r := range log {
		switch r.Kind {
		case risc.VerifKindDispatch:
			fmt.Fprintf(h, "d%d:%d:%d,", r.Seq, r.A, r.Tick)
		case risc.VerifKindExec:
			fmt.Fprintf(h, "x%d:%d,", r.Seq, r.Tick)
		}
	}
	return hex.EncodeToString(h.Sum(nil))[:12]
}
