package main

// Driver: shards a deterministic case list over worker child processes,
// aggregates their results, applies the known-findings file, writes evidence
// and replay files, and prints VIOLATION / KNOWN-FINDING lines.

import (
	"bufio"
	"encoding/json"
	"flag"
	"fmt"
	"os"
	"os/exec"
	"path/filepath"
	"runtime"
	"sort"
	"strconv"
	"strings"
	"sync"
	"time"
)

// verifDir is the root of the verification tree (VERIF_DIR overrides it so that a
// snapshot copy can run without touching /verif).
var verifDir = func() string {
	if d := os.Getenv("VERIF_DIR"); d != "" {
		return d
	}
	return "/verif"
}()

// caseResult is what a worker reports for one case.
type caseResult struct {
	Idx          int              `json:"idx"`
	Runs         int64            `json:"runs"`
	Discarded    bool             `json:"discarded,omitempty"`
	Nontrivial   bool             `json:"nontrivial,omitempty"`
	Hash         string           `json:"hash,omitempty"`
	Findings     []finding        `json:"findings,omitempty"`
	Stats        map[string]int64 `json:"stats,omitempty"`
	Sample       any              `json:"sample,omitempty"`
	MaxRatio     float64          `json:"max_ratio,omitempty"`
	MaxTickRatio float64          `json:"max_tick_ratio,omitempty"`
	Cells        []string         `json:"cells,omitempty"`      // distinct coverage cells visited
	DistinctN    int64            `json:"distinct_n,omitempty"` // distinct non-trivial items inside this case (disjoint across cases)
}

// property is the interface every check implements.
type property interface {
	ID() string
	NumCases(tier string) int
	RunCase(tier string, seed int64, idx int) caseResult
	Rule() string
	Assumptions() []string
	// Replay re-runs a recorded finding and reports whether it still fails.
	Replay(f finding) (bool, string)
	// MinEvents lists stats keys that must be > 0 for the run to count as having observed something.
	MinEvents(tier string) []string
	Exhaustive(tier string) bool
}

var registry = map[string]property{}

func register(p property) { registry[p.ID()] = p }

func envSeed() int64 {
	if s := os.Getenv("VERIF_SEED"); s != "" {
		if v, err := strconv.ParseInt(s, 10, 64); err == nil {
			return v
		}
	}
	return 1
}

// ---------------- worker ----------------

func workerMain(args []string) {
	fs := flag.NewFlagSet("worker", flag.ExitOnError)
	prop := fs.String("prop", "", "")
	tier := fs.String("tier", "quick", "")
	seed := fs.Int64("seed", 1, "")
	shard := fs.Int("shard", 0, "")
	of := fs.Int("of", 1, "")
	from := fs.Int("from", 0, "first case index to consider")
	out := fs.String("out", "", "")
	fs.Parse(args)
	p := registry[*prop]
	if p == nil {
		fmt.Fprintln(os.Stderr, "unknown property", *prop)
		os.Exit(2)
	}
	f, err := os.OpenFile(*out, os.O_APPEND|os.O_CREATE|os.O_WRONLY, 0o644)
	if err != nil {
		fmt.Fprintln(os.Stderr, err)
		os.Exit(2)
	}
	defer f.Close()
	n := p.NumCases(*tier)
	for idx := *from; idx < n; idx++ {
		if idx%*of != *shard {
			continue
		}
		fmt.Fprintf(f, "B %d\n", idx)
		res := p.RunCase(*tier, *seed, idx)
		res.Idx = idx
		b, _ := json.Marshal(res)
		fmt.Fprintf(f, "R %s\n", b)
	}
	fmt.Fprintf(f, "D\n")
}

// ---------------- known findings ----------------

type kfEntry struct {
	ID       string
	Props    []string
	Variants []string
	Class    string
	Sub      string
	Site     string
	Trigger  []string
	MinPar   int // the finding needs at least this many execute units / cores
	Witness  string
	What     string
	Active   bool
}

type kfFile struct {
	Entries []kfEntry
	Fixed   []string
}

func parseKV(s string) map[string]string {
	// key=value pairs separated by spaces; "what=" takes the rest of the line
	m := map[string]string{}
	if i := strings.Index(s, " what="); i >= 0 {
		m["what"] = strings.TrimSpace(s[i+6:])
		s = s[:i]
	}
	for _, tok := range strings.Fields(s) {
		if i := strings.Index(tok, "="); i > 0 {
			m[tok[:i]] = tok[i+1:]
		}
	}
	return m
}

func loadKnownFindings() kfFile {
	var kf kfFile
	b, err := os.ReadFile(filepath.Join(verifDir, "KNOWN_FINDINGS.txt"))
	if err != nil {
		return kf
	}
	for _, line := range strings.Split(string(b), "\n") {
		line = strings.TrimSpace(line)
		switch {
		case strings.HasPrefix(line, "finding:"):
			m := parseKV(strings.TrimPrefix(line, "finding:"))
			e := kfEntry{ID: m["id"], Class: m["class"], Sub: m["sub"], Site: m["site"], Witness: m["witness"], What: m["what"]}
			if m["minpar"] != "" {
				fmt.Sscan(m["minpar"], &e.MinPar)
			}
			if m["trigger"] != "" {
				e.Trigger = strings.Split(m["trigger"], ",")
			}
			e.Props = strings.Split(m["properties"], ",")
			e.Variants = strings.Split(m["variants"], ",")
			kf.Entries = append(kf.Entries, e)
		case strings.HasPrefix(line, "fixed:"):
			kf.Fixed = append(kf.Fixed, line)
		}
	}
	return kf
}

func contains(xs []string, x string) bool {
	for _, y := range xs {
		if y == x {
			return true
		}
	}
	return false
}

func (e kfEntry) matches(f finding) bool {
	if !contains(e.Props, f.Prop) || !contains(e.Variants, f.Config.V) {
		return false
	}
	if !contains(strings.Split(e.Class, "|"), f.Class) {
		return false
	}
	if e.MinPar > 0 && variantClass(f.Config.V) >= 6 && f.Config.EU < e.MinPar {
		return false
	}
	if e.Sub != "" && !contains(strings.Split(e.Sub, "|"), subClass(f.Sub)) {
		return false
	}
	if e.Site != "" {
		hit := false
		for _, alt := range strings.Split(e.Site, "|") {
			if strings.Contains(strings.ReplaceAll(f.Site, " ", "_"), alt) {
				hit = true
			}
		}
		if !hit {
			return false
		}
	}
	if len(e.Trigger) > 0 {
		hit := false
		for _, t := range e.Trigger {
			if contains(f.Trig, t) {
				hit = true
			}
		}
		if !hit {
			return false
		}
	}
	return true
}

// witnessFile is the committed form of a finding witness.
type witnessFile struct {
	ID      string    `json:"id"`
	Prop    string    `json:"property"`
	Config  config    `json:"config"`
	Input   caseInput `json:"input"`
	Class   string    `json:"class"`
	Sub     string    `json:"sub,omitempty"`
	Site    string    `json:"site,omitempty"`
	Detail  string    `json:"detail,omitempty"`
	Family  string    `json:"family,omitempty"`
	Repeats int       `json:"repeats,omitempty"`
	Extra   string    `json:"extra,omitempty"`
}

// ---------------- parent ----------------

type aggregate struct {
	Cases, Discarded int
	DistinctN        int64
	Runs             int64
	Distinct         map[string]bool
	Stats            map[string]int64
	Cells            map[string]bool
	Findings         []finding
	Samples          []any
	MaxRatio         float64
	MaxTickRatio     float64
	Inconclusive     []string
}

func runCheck(p property, tier string, seed int64, workers int) int {
	start := time.Now()
	id := p.ID()
	work := filepath.Join(verifDir, "work", id)
	os.RemoveAll(work)
	os.MkdirAll(work, 0o755)
	os.MkdirAll(filepath.Join(verifDir, "evidence"), 0o755)
	os.MkdirAll(filepath.Join(verifDir, "replays"), 0o755)
	if old, _ := filepath.Glob(filepath.Join(verifDir, "replays", id+"-"+tier+"-*.json")); len(old) > 0 {
		for _, f := range old {
			os.Remove(f)
		}
	}
	n := p.NumCases(tier)
	if workers > n {
		workers = n
	}
	if workers < 1 {
		workers = 1
	}
	self, _ := os.Executable()
	agg := aggregate{Distinct: map[string]bool{}, Stats: map[string]int64{}, Cells: map[string]bool{}}
	var mu sync.Mutex
	var wg sync.WaitGroup
	for w := 0; w < workers; w++ {
		wg.Add(1)
		go func(w int) {
			defer wg.Done()
			from := 0
			restarts := 0
			for {
				out := filepath.Join(work, fmt.Sprintf("res_%d_%d.jsonl", w, restarts))
				errf := filepath.Join(work, fmt.Sprintf("err_%d_%d.txt", w, restarts))
				ef, _ := os.Create(errf)
				cmd := exec.Command(self, "worker", "-prop", id, "-tier", tier, "-seed", fmt.Sprint(seed), "-shard", fmt.Sprint(w), "-of", fmt.Sprint(workers), "-from", fmt.Sprint(from), "-out", out)
				cmd.Stdout = ef
				cmd.Stderr = ef
				cmd.Env = append(os.Environ(), "GOTRACEBACK=all")
				cmd.Start()
				done := make(chan error, 1)
				go func() { done <- cmd.Wait() }()
				// wall-clock back-stop: no progress for a long time. One C08 case is hundreds of simulations plus two
				// child processes, which on a loaded machine can take longer than the default without being stuck.
				watchdog := 900 * time.Second
				if id == "C08" {
					watchdog = 1800 * time.Second
				}
				lastSize, lastChange := int64(-1), time.Now()
				hung := false
			waitLoop:
				for {
					select {
					case <-done:
						break waitLoop
					case <-time.After(2 * time.Second):
						if st, err := os.Stat(out); err == nil && st.Size() != lastSize {
							lastSize, lastChange = st.Size(), time.Now()
						} else if time.Since(lastChange) > watchdog {
							hung = true
							cmd.Process.Signal(os.Interrupt)
							time.Sleep(200 * time.Millisecond)
							cmd.Process.Kill()
							<-done
							break waitLoop
						}
					}
				}
				ef.Close()
				lastB, complete := readResults(out, &agg, &mu)
				if complete {
					return
				}
				// the worker died on case lastB
				tail := tailFile(errf, 30)
				mu.Lock()
				if hung {
					agg.Inconclusive = append(agg.Inconclusive, fmt.Sprintf("case %d: no progress for %d s of wall-clock (back-stop watchdog); worker killed", lastB, int(watchdog/time.Second)))
				} else if lastB >= 0 {
					agg.Findings = append(agg.Findings, finding{Prop: id, Class: "worker-crash", Case: lastB, Detail: "worker process died while running this case: " + firstLine(tail), Extra: tail})
				} else {
					agg.Inconclusive = append(agg.Inconclusive, "worker died before its first case: "+firstLine(tail))
				}
				mu.Unlock()
				restarts++
				if lastB < 0 || restarts > 50 {
					return
				}
				from = lastB + 1
			}
		}(w)
	}
	wg.Wait()
	if id == "C08" {
		c08RacePhase(tier, seed, &agg)
	}
	return finishCheck(p, tier, seed, &agg, start)
}

func firstLine(s string) string {
	for _, l := range strings.Split(s, "\n") {
		l = strings.TrimSpace(l)
		if l != "" {
			return l
		}
	}
	return ""
}

func tailFile(path string, n int) string {
	b, _ := os.ReadFile(path)
	lines := strings.Split(string(b), "\n")
	// keep the first 8 lines (fatal error message) and the last n
	if len(lines) > n+8 {
		lines = append(lines[:8], lines[len(lines)-n:]...)
	}
	return strings.Join(lines, "\n")
}

func readResults(path string, agg *aggregate, mu *sync.Mutex) (lastB int, complete bool) {
	lastB = -1
	f, err := os.Open(path)
	if err != nil {
		return
	}
	defer f.Close()
	sc := bufio.NewScanner(f)
	sc.Buffer(make([]byte, 1<<20), 1<<28)
	open := -1
	for sc.Scan() {
		line := sc.Text()
		switch {
		case strings.HasPrefix(line, "B "):
			open, _ = strconv.Atoi(line[2:])
		case strings.HasPrefix(line, "R "):
			var r caseResult
			if err := json.Unmarshal([]byte(line[2:]), &r); err != nil {
				continue
			}
			open = -1
			mu.Lock()
			agg.Cases++
			agg.Runs += r.Runs
			agg.DistinctN += r.DistinctN
			if r.Discarded {
				agg.Discarded++
			}
			if r.Nontrivial && r.Hash != "" {
				agg.Distinct[r.Hash] = true
			}
			for k, v := range r.Stats {
				agg.Stats[k] += v
			}
			for _, c := range r.Cells {
				agg.Cells[c] = true
			}
			for _, f := range r.Findings {
				f.Case = r.Idx
				agg.Findings = append(agg.Findings, f)
			}
			if r.Sample != nil && len(agg.Samples) < 3 {
				agg.Samples = append(agg.Samples, r.Sample)
			}
			if r.MaxRatio > agg.MaxRatio {
				agg.MaxRatio = r.MaxRatio
			}
			if r.MaxTickRatio > agg.MaxTickRatio {
				agg.MaxTickRatio = r.MaxTickRatio
			}
			mu.Unlock()
		case line == "D":
			complete = true
		}
	}
	lastB = open
	return
}

func finishCheck(p property, tier string, seed int64, agg *aggregate, start time.Time) int {
	id := p.ID()
	kf := loadKnownFindings()
	// 1. witnesses of known findings for this property
	for i := range kf.Entries {
		e := &kf.Entries[i]
		if !contains(e.Props, id) {
			continue
		}
		b, err := os.ReadFile(filepath.Join(verifDir, e.Witness))
		if err != nil {
			fmt.Printf("note: witness of %s unreadable (%v); attribution to it is off\n", e.ID, err)
			continue
		}
		var w witnessFile
		if err := json.Unmarshal(b, &w); err != nil {
			fmt.Printf("note: witness of %s unparsable; attribution to it is off\n", e.ID)
			continue
		}
		f := finding{Prop: id, Config: w.Config, Class: w.Class, Sub: w.Sub, Site: w.Site, Input: &w.Input, Family: w.Family, Extra: w.Extra}
		still, _ := p.Replay(f)
		e.Active = still
		if still {
			fmt.Printf("KNOWN-FINDING: property=%s %s %s\n", id, e.ID, e.What)
		} else {
			fmt.Printf("note: witness of %s no longer fails for %s; attribution to it is off for this run\n", e.ID, id)
		}
	}
	// 2. classify findings
	sort.SliceStable(agg.Findings, func(i, j int) bool { return agg.Findings[i].Case < agg.Findings[j].Case })
	attributed := map[string]int{}
	var violations []finding
	for _, f := range agg.Findings {
		f.Prop = id
		matched := ""
		for _, e := range kf.Entries {
			if e.Active && e.matches(f) {
				matched = e.ID
				break
			}
		}
		if matched != "" {
			attributed[matched]++
			continue
		}
		violations = append(violations, f)
	}
	// 3. report violations (one replay file per distinct key, capped)
	seen := map[string]int{}
	nFiles := 0
	for _, f := range violations {
		k := f.key()
		seen[k]++
		if seen[k] > 1 {
			continue
		}
		path := "(replay files capped)"
		if nFiles < 25 {
			nFiles++
			path = filepath.Join(verifDir, "replays", fmt.Sprintf("%s-%s-case%d-%d.json", id, tier, f.Case, nFiles))
			b, _ := json.MarshalIndent(f, "", " ")
			os.WriteFile(path, b, 0o644)
		}
		fmt.Printf("VIOLATION property=%s replay=%s\n", id, path)
		fmt.Printf("  %s %s %s %s: %s\n", f.Config, f.Class, f.Sub, f.Site, trunc(f.Detail, 300))
	}
	for _, s := range agg.Inconclusive {
		fmt.Printf("INCONCLUSIVE property=%s %s\n", id, s)
	}
	// 4. health: the monitor must have observed something
	unhealthy := ""
	if agg.Cases-agg.Discarded < 2 {
		unhealthy = "fewer than 2 cases were evaluated"
	}
	for _, k := range p.MinEvents(tier) {
		if agg.Stats[k] == 0 {
			unhealthy = "monitor observed zero events of kind " + k
		}
	}
	// 5. evidence
	distinct := int64(len(agg.Distinct))
	if agg.DistinctN > 0 {
		distinct = agg.DistinctN
	} else if distinct == 0 {
		distinct = int64(len(agg.Cells))
	}
	cov := map[string]any{
		"evaluations":                  agg.Runs,
		"distinct_nontrivial":          distinct,
		"rule":                         p.Rule(),
		"samples":                      agg.Samples,
		"cases":                        agg.Cases,
		"cases_discarded":              agg.Discarded,
		"exhaustive":                   p.Exhaustive(tier),
		"events":                       agg.Stats,
		"distinct_cells":               len(agg.Cells),
		"attributed_to_known_findings": attributed,
		"violation_classes":            seen,
		"inconclusive":                 agg.Inconclusive,
		"max_cycles_over_bound_ratio":  agg.MaxRatio,
		"max_ticks_over_bound_ratio":   agg.MaxTickRatio,
	}
	if len(agg.Samples) == 0 {
		cov["samples"] = []any{"(no sample recorded)"}
	}
	ev := map[string]any{
		"property_id": id,
		"tier":        tier,
		"seed":        seed,
		"level":       "exploration",
		"coverage":    cov,
		"assumptions": p.Assumptions(),
		"wall_s":      time.Since(start).Seconds(),
		"violations":  len(violations),
	}
	b, _ := json.MarshalIndent(ev, "", " ")
	if err := os.WriteFile(filepath.Join(verifDir, "evidence", id+".json"), b, 0o644); err != nil {
		fmt.Println("cannot write evidence:", err)
		return 2
	}
	fmt.Printf("%s %s seed=%d: cases=%d discarded=%d runs=%d distinct_nontrivial=%d violations=%d (distinct %d) attributed=%v inconclusive=%d wall=%.1fs\n",
		id, tier, seed, agg.Cases, agg.Discarded, agg.Runs, distinct, len(violations), len(seen), attributed, len(agg.Inconclusive), time.Since(start).Seconds())
	if len(violations) > 0 {
		return 1
	}
	if unhealthy != "" {
		fmt.Printf("UNHEALTHY property=%s %s\n", id, unhealthy)
		return 2
	}
	os.RemoveAll(filepath.Join(verifDir, "work", id))
	return 0
}

func trunc(s string, n int) string {
	if len(s) > n {
		return s[:n] + "..."
	}
	return s
}

func checkMain(id string, args []string) {
	fs := flag.NewFlagSet(id, flag.ExitOnError)
	tier := fs.String("tier", os.Getenv("VERIF_TIER"), "")
	replay := fs.String("replay", "", "")
	workers := fs.Int("workers", runtime.NumCPU(), "")
	fs.Parse(args)
	if *tier == "" {
		*tier = "quick"
	}
	p := registry[id]
	if p == nil {
		fmt.Println("unknown property", id)
		os.Exit(2)
	}
	if *replay != "" {
		b, err := os.ReadFile(*replay)
		if err != nil {
			fmt.Println(err)
			os.Exit(2)
		}
		var f finding
		if err := json.Unmarshal(b, &f); err != nil {
			// maybe a witness file
			var w witnessFile
			if err2 := json.Unmarshal(b, &w); err2 != nil {
				fmt.Println(err)
				os.Exit(2)
			}
			f = finding{Prop: id, Config: w.Config, Class: w.Class, Sub: w.Sub, Site: w.Site, Input: &w.Input, Family: w.Family}
		}
		if f.Input == nil {
			var w witnessFile
			if json.Unmarshal(b, &w) == nil && w.Input.Src != "" {
				f = finding{Prop: id, Config: w.Config, Class: w.Class, Sub: w.Sub, Site: w.Site, Input: &w.Input, Family: w.Family}
			}
		}
		still, detail := p.Replay(f)
		fmt.Println(detail)
		if still {
			fmt.Printf("VIOLATION property=%s replay=%s\n", id, *replay)
			os.Exit(1)
		}
		fmt.Println("replay: the recorded finding no longer reproduces")
		os.Exit(0)
	}
	os.Exit(runCheck(p, *tier, envSeed(), *workers))
}
