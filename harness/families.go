package main

// Targeted program families (DESIGN.md section 5).

import (
	"fmt"
	"math/rand"
)

func pick[T any](r *rand.Rand, xs []T) T { return xs[r.Intn(len(xs))] }

// ---------- mixed (C01) ----------

func famMixed(r *rand.Rand, idx int) caseInput {
	c := genCfg{
		N:        10 + r.Intn(70),
		Mem:      r.Intn(5) != 0,
		Branch:   r.Intn(4) != 0,
		Jumps:    r.Intn(3) != 0,
		Loops:    r.Intn(3) != 0,
		Ret:      true,
		EndLabel: true,
		MemSize:  []int{512, 1024, 2048, 4096, 8192}[r.Intn(5)],
		NData:    3 + r.Intn(6),
		NAddr:    1 + r.Intn(3),
		DivRem:   true,
		SubWord:  true,
		UseRa:    true,
		DenseALU: r.Intn(3) == 0,
	}
	return genProgram(r, c)
}

// ---------- shadow (C03) ----------

// famShadow builds: prefix . branch . shadow . join . suffix.
// taken selects data that makes the branch taken (so the shadow is wrong-path).
func famShadow(r *rand.Rand, idx int) caseInput {
	taken := idx%4 != 3 // three quarters taken, one quarter not taken
	c := genCfg{MemSize: 2048, NData: 6, NAddr: 3, SubWord: true, LineSize: 64}
	e := newEmitter(r, c)
	regs, mem := e.initState()
	// live registers get known values
	for _, d := range e.dr {
		regs[regIdx(d)] = int32(r.Intn(2000) - 1000)
	}
	// address registers: s0 -> line A (for the late-resolving load), s1 -> line B (live data), s2 -> line C
	regs[regIdx("s0")] = 256
	regs[regIdx("s1")] = 512 + int32(4*r.Intn(8))
	regs[regIdx("s2")] = 1024 + int32(4*r.Intn(8))
	// some leading noise
	for i := r.Intn(4); i > 0; i-- {
		e.aluOp()
	}
	// every fourth case: two branches in flight - a late-resolving outer branch whose shadow starts
	// with a slow register writer followed by a younger branch that resolves at once
	nested := idx%4 == 1
	// optionally pre-touch line B / C so that shadow accesses hit
	if !nested && r.Intn(2) == 0 {
		e.emit("lw t4, 0(s1)")
	}
	if !nested && r.Intn(3) == 0 {
		e.emit("lw t4, 0(s2)")
	}
	// the second branch operand is usually settled long before the branch, so that a branch fed by a missing
	// load has a single pending operand, is dispatched with forwarding and waits inside an execute unit
	a1Early := r.Intn(4) != 0
	a1Done := false
	var a1Val int32
	preloads := func() {
		if a1Early {
			e.emit("li a1, %d", a1Val)
			a1Done = true
		}
		// independent cache-missing loads ahead of the branch occupy execute units until shortly before the
		// branch resolves, so that shadow instructions execute in the last cycles before the resolution
		if r.Intn(2) == 0 {
			for n := 1 + r.Intn(3); n > 0; n-- {
				e.emit("lw a2, %d(zero)", 64*(20+r.Intn(8))+4*r.Intn(4))
				for pad := r.Intn(7); pad > 0; pad-- {
					e.emit("addi t4, zero, %d", r.Intn(100))
				}
			}
		}
	}
	kind := r.Intn(10) // 0-6 conditional, 7 j, 8 jal, 9 jalr
	shadowLen := 1 + r.Intn(6)
	join := e.newLabel()
	late := r.Intn(2) == 0 // branch operand comes from a cache-missing load
	if nested {
		kind, late = r.Intn(7), true
		shadowLen = 3 + r.Intn(4)
	}
	switch {
	case kind <= 6:
		// condition registers a0, a1
		x := int32(r.Intn(100))
		y := x
		op := pick(r, []string{"beq", "bne", "blt", "bge", "ble", "bltu", "bgeu", "beqz", "bnez"})
		want := taken
		// choose y so that op(x,y) == want
		set := func(cond func(a, b int32) bool) {
			for tries := 0; tries < 50; tries++ {
				x = int32(r.Intn(200) - 100)
				y = int32(r.Intn(200) - 100)
				if r.Intn(3) == 0 {
					y = x
				}
				if cond(x, y) == want {
					return
				}
			}
		}
		switch op {
		case "beq":
			set(func(a, b int32) bool { return a == b })
		case "bne":
			set(func(a, b int32) bool { return a != b })
		case "blt":
			set(func(a, b int32) bool { return a < b })
		case "bge":
			set(func(a, b int32) bool { return a >= b })
		case "ble":
			set(func(a, b int32) bool { return a <= b })
		case "bltu":
			set(func(a, b int32) bool { return uint32(a) < uint32(b) })
		case "bgeu":
			set(func(a, b int32) bool { return uint32(a) >= uint32(b) })
		case "beqz":
			set(func(a, b int32) bool { return a == 0 })
		case "bnez":
			set(func(a, b int32) bool { return a != 0 })
		}
		a1Val = y
		preloads()
		if late {
			// x comes from memory at 0(s0)
			a := regs[regIdx("s0")]
			mem[a], mem[a+1], mem[a+2], mem[a+3] = int8(x), int8(x>>8), int8(x>>16), int8(x>>24)
			e.emit("lw a0, 0(s0)")
			if r.Intn(4) == 0 {
				e.emit("addi a0, a0, 0")
			}
		} else {
			e.emit("li a0, %d", x)
		}
		if !a1Done {
			e.emit("li a1, %d", y)
		}
		if op == "beqz" || op == "bnez" {
			e.emit("%s a0, %s", op, join)
		} else {
			e.emit("%s a0, a1, %s", op, join)
		}
	case kind == 7:
		taken = true
		a1Early = false
		preloads()
		e.emit("j %s", join)
	case kind == 8:
		taken = true
		a1Early = false
		preloads()
		e.emit("jal %s, %s", pick(r, []string{"t4", "ra", "zero"}), join)
	default:
		taken = true
		a1Early = false
		preloads()
		// jalr to the join point: target pc = (count + 2 + shadowLen) * 4 after the li
		target := (e.count + 2 + shadowLen) * 4
		e.emit("li t5, %d", target)
		e.emit("jalr %s, t5, 0", pick(r, []string{"zero", "t4"}))
	}
	// shadow
	var innerLabels []string
	for i := 0; i < shadowLen; i++ {
		k := r.Intn(15)
		if nested && i == 0 {
			k = pick(r, []int{14, 14, 14, 0})
		}
		if nested && i == 1 {
			k = pick(r, []int{12, 12, 12, 13})
		}
		if !taken && k >= 8 && k <= 10 {
			k = r.Intn(4) // no ill-formed instruction on the executed path
		}
		if kind == 9 && k >= 12 {
			k = r.Intn(8) // the jalr variant needs exactly one instruction per shadow slot and no labels inside
		}
		// place pending inner labels one or two instructions after their branch
		if len(innerLabels) > 0 && r.Intn(2) == 0 {
			e.label(innerLabels[0])
			innerLabels = innerLabels[1:]
		}
		switch k {
		case 12:
			// a younger branch inside the shadow, ready at once and taken, to a label further down the shadow
			l := e.newLabel()
			e.emit("%s", pick(r, []string{"beq zero, zero, " + l, "bgeu zero, zero, " + l, "bge a1, a1, " + l}))
			innerLabels = append(innerLabels, l)
		case 13:
			// a younger branch inside the shadow that is not taken (it commits speculative state early)
			e.emit("%s", pick(r, []string{"bne zero, zero, " + join, "bltu zero, zero, " + join, "blt a1, a1, " + join}))
		case 14:
			// slow wrong-path register writer: a load that misses
			e.emit("lw %s, %d(%s)", e.reg(), 4*r.Intn(8), pick(r, []string{"s2", "s1"}))
		case 0, 1, 2:
			e.emit("%s %s, %s, %s", pick(r, []string{"add", "sub", "xor", "or"}), e.reg(), e.reg(), e.reg())
		case 3:
			e.emit("li %s, %d", e.reg(), r.Intn(100000))
		case 4, 5:
			e.emit("sw %s, %d(%s)", e.reg(), 4*r.Intn(8), pick(r, []string{"s1", "s2"}))
		case 6:
			e.emit("sb %s, %d(%s)", e.reg(), r.Intn(32), pick(r, []string{"s1", "s2"}))
		case 7:
			e.emit("lw %s, %d(%s)", e.reg(), 4*r.Intn(8), pick(r, []string{"s1", "s2", "s0"}))
		case 8:
			// load from an address that is out of bounds or negative (spectre-like); zero base
			e.emit("lw %s, %d(zero)", e.reg(), pick(r, []int{-4, -64, 4096, 100000, 2044 + 4}))
		case 9:
			e.emit("div %s, %s, zero", e.reg(), e.reg())
		case 10:
			e.emit("jal %s, %s", pick(r, []string{"ra", "t4"}), join)
		case 11:
			e.emit("addi %s, %s, %d", e.reg(), e.reg(), r.Intn(64))
		}
	}
	for _, l := range innerLabels {
		e.label(l)
	}
	e.label(join)
	// suffix: make corruption observable
	for i, d := range e.dr {
		if r.Intn(4) != 0 {
			e.emit("sw %s, %d(s2)", d, 64+4*i)
		}
	}
	e.emit("lw a2, 0(s1)")
	e.emit("lw t4, 4(s2)")
	if r.Intn(2) == 0 {
		e.emit("ret")
	}
	return caseInput{Src: e.sb.String(), Regs: regs, Mem: mem}
}

// ---------- regdep (C04) ----------

func famRegdep(r *rand.Rand, idx int) caseInput {
	nd := 2 + r.Intn(3)
	c := genCfg{MemSize: 1024, NData: nd, NAddr: 2, LineSize: 64}
	e := newEmitter(r, c)
	regs, mem := e.initState()
	n := 8 + r.Intn(32)
	op3 := func() string {
		return pick(r, []string{"add", "sub", "xor", "or", "and", "mul", "slt", "sltu", "sll", "srl"})
	}
	for e.count < n {
		switch r.Intn(12) {
		case 0: // chain: each reads the previous result
			l := 2 + r.Intn(10)
			d := e.reg()
			for i := 0; i < l; i++ {
				nd := e.reg()
				e.emit("%s %s, %s, %s", op3(), nd, d, e.regz())
				d = nd
			}
		case 1: // fan: several consumers of one producer
			d := e.reg()
			e.emit("addi %s, %s, %d", d, e.reg(), r.Intn(100))
			for i := 1 + r.Intn(3); i > 0; i-- {
				e.emit("%s %s, %s, %s", op3(), e.reg(), d, d)
			}
		case 2: // WAW pair at distance 1-4
			d := e.reg()
			e.emit("li %s, %d", d, r.Intn(1000))
			for i := r.Intn(4); i > 0; i-- {
				e.emit("%s %s, %s, %s", op3(), e.reg(), e.reg(), e.reg())
			}
			e.emit("addi %s, %s, %d", d, e.reg(), r.Intn(100))
		case 3: // WAR: read then overwrite
			s := e.reg()
			e.emit("%s %s, %s, %s", op3(), e.reg(), s, e.reg())
			e.emit("li %s, %d", s, r.Intn(1000))
		case 4: // slow producer (load, miss or hit) then fast writer of the same register, either order
			d := e.reg()
			if r.Intn(2) == 0 {
				e.emit("lw %s, %d(%s)", d, 4*r.Intn(16), pick(r, e.ar))
				e.emit("addi %s, %s, %d", d, e.regz(), r.Intn(50))
			} else {
				e.emit("addi %s, %s, %d", d, e.regz(), r.Intn(50))
				e.emit("lw %s, %d(%s)", d, 4*r.Intn(16), pick(r, e.ar))
			}
			if r.Intn(2) == 0 {
				e.emit("add %s, %s, %s", e.reg(), d, d)
			}
		case 5: // consumer of a register with two writers in flight
			d := e.reg()
			e.emit("lw %s, %d(%s)", d, 4*r.Intn(16), pick(r, e.ar))
			e.emit("xori %s, %s, %d", d, d, r.Intn(255))
			e.emit("add %s, %s, %s", e.reg(), d, e.reg())
		case 6:
			e.emit("lw %s, %d(%s)", e.reg(), 4*r.Intn(16), pick(r, e.ar))
		case 7:
			e.emit("mv %s, %s", e.reg(), e.reg())
		case 8, 9:
			// a reader parked behind a missing load, then a younger writer of the register it still has to
			// read (WAR) or of its destination (WAW); the writer itself depends on a just-dispatched producer
			x, rd, sreg, pr := e.reg(), e.reg(), e.reg(), e.reg()
			e.emit("lw %s, %d(%s)", x, 4*r.Intn(16), pick(r, e.ar))
			e.emit("%s %s, %s, %s", op3(), rd, x, sreg)
			for i := r.Intn(3); i > 0; i-- {
				e.emit("addi %s, %s, %d", pr, pr, r.Intn(9))
			}
			e.emit("addi %s, zero, %d", pr, 1+r.Intn(50))
			if r.Intn(3) != 0 {
				e.emit("%s %s, %s, %s", pick(r, []string{"add", "or", "xor", "sub"}), sreg, pr, pick(r, []string{"zero", pr}))
			} else {
				e.emit("%s %s, %s, %s", pick(r, []string{"add", "or", "xor"}), rd, pr, pick(r, []string{"zero", pr}))
			}
		default:
			e.aluOp()
		}
	}
	if r.Intn(3) == 0 {
		e.emit("ret")
	}
	return caseInput{Src: e.sb.String(), Regs: regs, Mem: mem}
}

// ---------- memwalk (C05) ----------

func famMemwalk(r *rand.Rand, idx int) caseInput {
	ms := []int{8192, 12288, 16384}[r.Intn(3)]
	c := genCfg{MemSize: ms, NData: 5, NAddr: 3, SubWord: true, LineSize: 64}
	e := newEmitter(r, c)
	regs, mem := e.initState()
	regs[regIdx("a0")] = 0
	acc := func(reg string) { e.emit("xor a0, a0, %s", reg) }
	sep := func() {
		// register dependence chain so that single-issue variants serialise neighbours
		for i := r.Intn(3); i > 0; i-- {
			e.emit("addi a0, a0, %d", r.Intn(7))
		}
	}
	nseg := 2 + r.Intn(4)
	for s := 0; s < nseg && e.count < 200; s++ {
		switch r.Intn(5) {
		case 0, 1: // walking loop with a stride: many fills and evictions from few instructions
			stride := pick(r, []int{4, 8, 20, 64, 68, 128, 132, 260})
			cnt := 5 + r.Intn(60)
			for stride*cnt+128 > ms {
				cnt /= 2
			}
			base := 64 + 4*r.Intn((ms-stride*cnt-128)/4+1)
			first := r.Intn(64) &^ 3
			if base+first+stride*cnt+8 < ms {
				base += first
			}
			// a sparse sweep (one access per line or per L3 line) is sometimes repeated over the same range:
			// what the first pass left dirty has been pushed down the hierarchy when the next pass reads it
			passes := 1
			if stride >= 64 && r.Intn(3) == 0 {
				passes = 2 + r.Intn(2)
			}
			body := r.Intn(4)
			for p := 0; p < passes; p++ {
				l := e.newLabel()
				e.emit("li s0, %d", base)
				e.emit("li s3, %d", cnt)
				e.label(l)
				switch body {
				case 0:
					e.emit("lw t0, 0(s0)")
					acc("t0")
					if passes > 1 {
						e.emit("sw a0, 0(s0)")
					}
				case 1:
					e.emit("sw a0, 0(s0)")
					e.emit("addi a0, a0, 3")
				case 2:
					e.emit("lw t0, 0(s0)")
					acc("t0")
					e.emit("sw a0, 4(s0)")
				default:
					e.emit("lb t0, 1(s0)")
					acc("t0")
					e.emit("sb a0, 2(s0)")
					e.emit("sh a0, 4, s0")
				}
				e.emit("addi s0, s0, %d", stride)
				e.emit("addi s3, s3, -1")
				e.emit("bnez s3, %s", l)
			}
		case 2: // ping-pong between lines that conflict over capacity: 17+ distinct lines revisited
			nl := 17 + r.Intn(8)
			base := 64 * (1 + r.Intn(ms/64-nl-2))
			for rep := 0; rep < 2; rep++ {
				for i := 0; i < nl && e.count < 200; i += 1 + r.Intn(3) {
					e.emit("li s1, %d", base+64*i+4*r.Intn(16))
					if r.Intn(2) == 0 {
						e.emit("sw a0, 0(s1)")
						e.emit("addi a0, a0, 1")
					} else {
						e.emit("lw t1, 0(s1)")
						acc("t1")
					}
				}
			}
		case 3: // store, evict (touch >16 other lines with a loop), load back
			a := 64 + 4*r.Intn((ms-128)/4)
			e.emit("li s2, %d", a)
			e.emit("sw a0, 0(s2)")
			e.emit("addi a0, a0, 11")
			far := 64 * (2 + r.Intn(ms/64-40))
			l := e.newLabel()
			e.emit("li s0, %d", far)
			e.emit("li s3, %d", 18+r.Intn(6))
			e.label(l)
			e.emit("lw t2, 0(s0)")
			acc("t2")
			e.emit("addi s0, s0, 64")
			e.emit("addi s3, s3, -1")
			e.emit("bnez s3, %s", l)
			e.emit("lw t3, 0(s2)")
			acc("t3")
		default: // random single accesses at every line-relative offset
			for i := 3 + r.Intn(10); i > 0; i-- {
				base := pick(r, e.ar)
				e.emit("li %s, %d", base, 64+4*r.Intn((ms-128)/4))
				sep()
				switch r.Intn(6) {
				case 0:
					e.emit("lw t0, %d(%s)", 4*(r.Intn(16)-8), base)
					acc("t0")
				case 1:
					e.emit("lb t0, %d(%s)", r.Intn(64)-32, base)
					acc("t0")
				case 2:
					e.emit("lh t0, %d(%s)", 2*(r.Intn(32)-16), base)
					acc("t0")
				case 3:
					e.emit("sw a0, %d(%s)", 4*(r.Intn(16)-8), base)
				case 4:
					e.emit("sb a0, %d(%s)", r.Intn(64)-32, base)
				default:
					e.emit("sh a0, %d, %s", 2*(r.Intn(32)-16), base)
				}
			}
		}
	}
	if r.Intn(2) == 0 {
		e.emit("ret")
	}
	return caseInput{Src: e.sb.String(), Regs: regs, Mem: mem}
}

// ---------- tails (C09) ----------

func famTails(r *rand.Rand, idx int) caseInput {
	c := genCfg{MemSize: 2048, NData: 5, NAddr: 3, SubWord: true, LineSize: 64, Mem: true}
	e := newEmitter(r, c)
	regs, mem := e.initState()
	for i := r.Intn(8); i > 0; i-- {
		e.one()
	}
	// optionally warm a line so that a tail access hits
	warm := r.Intn(2) == 0
	if warm {
		e.emit("lw t4, 0(s1)")
	}
	endKind := r.Intn(4) // 0 ret, 1 fall off, 2 jump to end label, 3 taken branch to end label
	tl := 1 + r.Intn(5)
	for i := 0; i < tl; i++ {
		switch r.Intn(8) {
		case 0:
			e.emit("lw %s, %d(s0)", e.reg(), 4*r.Intn(8)) // likely miss
		case 1:
			e.emit("lw %s, %d(s1)", e.reg(), 4*r.Intn(8)) // hit if warm
		case 2:
			e.emit("sw %s, %d(s2)", e.reg(), 4*r.Intn(8)) // store miss
		case 3:
			e.emit("sw %s, %d(s1)", e.reg(), 4*r.Intn(8)) // store hit if warm
		case 4:
			d := e.reg()
			e.emit("lw %s, %d(s0)", d, 4*r.Intn(8))
			e.emit("addi %s, %s, %d", e.reg(), d, r.Intn(9))
		case 5:
			e.emit("li %s, %d", pick(r, []string{"a0", "a1", "t0"}), r.Intn(1000)+1)
		case 6:
			for j := 1 + r.Intn(3); j > 0; j-- {
				e.emit("sw %s, %d(%s)", e.reg(), 4*r.Intn(16), pick(r, e.ar))
			}
		default:
			e.emit("sb %s, %d(s2)", e.reg(), r.Intn(32))
		}
	}
	switch endKind {
	case 0:
		e.emit("ret")
		if r.Intn(2) == 0 {
			for i := 2 + r.Intn(8); i > 0; i-- {
				e.aluOp() // text after the return
			}
		}
	case 2:
		l := e.newLabel()
		e.emit("j %s", l)
		e.emit("li a0, 12345")
		e.label(l)
	case 3:
		l := e.newLabel()
		e.emit("beq zero, zero, %s", l)
		e.emit("li a0, 12345")
		e.emit("sw a0, 0(s1)")
		e.label(l)
	}
	return caseInput{Src: e.sb.String(), Regs: regs, Mem: mem}
}

// ---------- memdep (C10) ----------

func famMemdep(r *rand.Rand, idx int) caseInput {
	c := genCfg{MemSize: 2048, NData: 6, NAddr: 3, SubWord: true, LineSize: 64}
	e := newEmitter(r, c)
	regs, mem := e.initState()
	// two or three address registers hold the same (or same-line) address: no register dependence
	a := int32(128 + 4*r.Intn(400))
	regs[regIdx("s0")] = a
	regs[regIdx("s1")] = a
	regs[regIdx("s2")] = a
	if r.Intn(3) == 0 {
		regs[regIdx("s2")] = a - a%64 + int32(4*r.Intn(16)) // same line, other word
	}
	if r.Intn(2) == 0 {
		e.emit("lw t4, 0(s0)") // pre-touch
		if r.Intn(2) == 0 {
			e.emit("addi t4, t4, 0")
		}
	}
	filler := func(n int) {
		for i := 0; i < n; i++ {
			e.emit("%s %s, %s, %s", pick(r, []string{"add", "xor", "or"}), pick(r, []string{"a1", "a2"}), pick(r, []string{"a1", "a2"}), pick(r, []string{"a1", "a2"}))
		}
	}
	ld := func(base string) {
		switch r.Intn(4) {
		case 0:
			e.emit("lb %s, %d(%s)", e.reg(), r.Intn(4), base)
		case 1:
			e.emit("lh %s, %d(%s)", e.reg(), 2*r.Intn(2), base)
		default:
			e.emit("lw %s, 0(%s)", e.reg(), base)
		}
	}
	st := func(base string) {
		switch r.Intn(4) {
		case 0:
			e.emit("sb %s, %d(%s)", e.reg(), r.Intn(4), base)
		case 1:
			e.emit("sh %s, %d, %s", e.reg(), 2*r.Intn(2), base)
		default:
			e.emit("sw %s, 0(%s)", e.reg(), base)
		}
	}
	groups := 1 + r.Intn(4)
	for g := 0; g < groups; g++ {
		b1, b2, b3 := pick(r, e.ar), pick(r, e.ar), pick(r, e.ar)
		switch r.Intn(5) {
		case 0: // store -> load
			st(b1)
			filler(r.Intn(8))
			ld(b2)
		case 1: // load -> store
			ld(b1)
			filler(r.Intn(8))
			st(b2)
		case 2: // store -> store
			st(b1)
			filler(r.Intn(8))
			st(b2)
		case 3: // store -> store -> load
			st(b1)
			filler(r.Intn(4))
			st(b2)
			filler(r.Intn(4))
			ld(b3)
		default: // store -> load -> store
			st(b1)
			filler(r.Intn(4))
			ld(b2)
			filler(r.Intn(4))
			st(b3)
		}
	}
	// make results observable
	e.emit("lw a0, 0(s0)")
	if r.Intn(2) == 0 {
		e.emit("ret")
	}
	return caseInput{Src: e.sb.String(), Regs: regs, Mem: mem}
}

// ---------- stress-term (C07) ----------

func famStressTerm(r *rand.Rand, idx int) caseInput {
	c := genCfg{MemSize: 2048, NData: 5, NAddr: 3, SubWord: true, LineSize: 64, Mem: true}
	e := newEmitter(r, c)
	regs, mem := e.initState()
	if r.Intn(3) == 0 {
		regs[regIdx("ra")] = int32(4 * r.Intn(8))
	}
	nseg := 1 + r.Intn(4)
	for s := 0; s < nseg; s++ {
		switch r.Intn(8) {
		case 0: // store then load of the same line
			b := pick(r, e.ar)
			e.emit("sw %s, %d(%s)", e.reg(), 4*r.Intn(8), b)
			for i := r.Intn(3); i > 0; i-- {
				e.aluOp()
			}
			e.emit("lw %s, %d(%s)", e.reg(), 4*r.Intn(8), b)
		case 1: // back-to-back taken branches
			for i := 2 + r.Intn(3); i > 0; i-- {
				l := e.newLabel()
				e.emit("beq zero, zero, %s", l)
				if r.Intn(2) == 0 {
					e.one()
				}
				e.label(l)
			}
		case 2: // store burst
			for i := 6 + r.Intn(15); i > 0; i-- {
				e.emit("sw %s, %d(%s)", e.regz(), 4*(r.Intn(32)-16), pick(r, e.ar))
			}
		case 3: // loop containing misses
			l := e.newLabel()
			e.emit("li s3, %d", 2+r.Intn(4))
			e.label(l)
			e.emit("lw %s, %d(%s)", e.reg(), 4*r.Intn(16), pick(r, e.ar))
			e.emit("addi %s, %s, 64", "s0", "s0")
			e.emit("andi s0, s0, 1023")
			e.emit("addi s0, s0, 128")
			e.emit("addi s3, s3, -1")
			e.emit("bnez s3, %s", l)
		case 4: // jump chains
			for i := 2 + r.Intn(3); i > 0; i-- {
				l := e.newLabel()
				e.emit("%s", pick(r, []string{"j " + l, "jal t5, " + l, "jal ra, " + l}))
				e.label(l)
			}
		case 5: // branch directly after a missing load it depends on
			d := e.reg()
			l := e.newLabel()
			e.emit("lw %s, %d(%s)", d, 4*r.Intn(8), pick(r, e.ar))
			e.emit("%s %s, %s, %s", pick(r, condOps2), d, e.regz(), l)
			e.one()
			e.one()
			e.label(l)
		default:
			for i := 2 + r.Intn(6); i > 0; i-- {
				e.one()
			}
		}
	}
	switch r.Intn(5) {
	case 0:
		if r.Intn(2) == 0 {
			e.emit("lw %s, %d(%s)", e.reg(), 4*r.Intn(16), pick(r, e.ar)) // a slow load right before the return
		}
		e.emit("ret")
		for i := r.Intn(10); i > 0; i-- {
			e.aluOp() // text after the return
		}
	case 1:
		l := e.newLabel()
		e.emit("%s", pick(r, []string{"j " + l, "beq zero, zero, " + l, "bgeu zero, zero, " + l}))
		e.label(l)
	case 2:
		// end in the middle of a store burst
		for i := 2 + r.Intn(4); i > 0; i-- {
			e.emit("sw %s, %d(%s)", e.regz(), 4*r.Intn(16), pick(r, e.ar))
		}
		if r.Intn(2) == 0 {
			e.emit("ret")
		}
	}
	return caseInput{Src: e.sb.String(), Regs: regs, Mem: mem}
}

// ---------- errpath (C07) ----------

func famErrpath(r *rand.Rand, idx int) caseInput {
	c := genCfg{MemSize: 1024, NData: 4, NAddr: 2, SubWord: true, LineSize: 64, Mem: true}
	e := newEmitter(r, c)
	regs, mem := e.initState()
	bad := func() {
		switch r.Intn(4) {
		case 0:
			e.emit("div %s, %s, zero", e.reg(), e.reg())
		case 1:
			e.emit("rem %s, %s, zero", e.reg(), e.reg())
		case 2:
			e.emit("%s", pick(r, []string{"j NOWHERE", "jal t5, NOWHERE", "beq zero, zero, NOWHERE", "bgeu zero, zero, NOWHERE"}))
		default:
			z := e.reg()
			e.emit("li %s, 0", z)
			e.emit("%s %s, %s, %s", pick(r, []string{"div", "rem"}), e.reg(), e.reg(), z)
		}
	}
	switch r.Intn(5) {
	case 0: // first instruction
		bad()
	case 1: // after some work
		for i := 1 + r.Intn(8); i > 0; i-- {
			e.one()
		}
		bad()
	case 2: // in a loop (second iteration)
		l := e.newLabel()
		e.emit("li s3, 2")
		e.emit("li a0, 1")
		e.label(l)
		e.one()
		e.emit("div a1, a2, a0")
		e.emit("addi a0, a0, -1")
		e.emit("addi s3, s3, -1")
		e.emit("bnez s3, %s", l)
	case 3: // right after a taken branch (met inside a flush drain)
		l := e.newLabel()
		if r.Intn(2) == 0 {
			e.emit("lw a0, 0(s0)")
		}
		e.emit("beq zero, zero, %s", l)
		e.one()
		e.label(l)
		bad()
	default: // older than a taken branch, slow (behind a missing load), so that it completes during the drain
		l := e.newLabel()
		e.emit("lw a0, 0(s0)")
		e.emit("sub a0, a0, a0")
		e.emit("div a1, a2, a0")
		e.emit("beq zero, zero, %s", l)
		e.one()
		e.label(l)
	}
	for i := r.Intn(4); i > 0; i-- {
		e.one()
	}
	return caseInput{Src: e.sb.String(), Regs: regs, Mem: mem}
}

// ---------- hot-line contention (C06, C10 on multi-core) ----------

func famHot(r *rand.Rand, idx int) caseInput {
	c := genCfg{
		N: 10 + r.Intn(50), Mem: true, Branch: r.Intn(2) == 0, Jumps: r.Intn(4) == 0, Loops: r.Intn(2) == 0,
		Ret: true, MemSize: 4096, NData: 4 + r.Intn(3), NAddr: 3, SubWord: true, Hot: 1 + r.Intn(4), LineSize: 64,
	}
	if r.Intn(4) == 0 {
		c.Hot = 0
		c.WideWalk = true
	}
	return genProgram(r, c)
}

var _ = fmt.Sprint
