package main

// Program generators. Every choice comes from the *rand.Rand handed in, which
// the caller seeds from (VERIF_SEED, family, case index).

import (
	"fmt"
	"math/rand"
	"strings"
)

type genCfg struct {
	N        int  // body size (instructions, roughly)
	Mem      bool // loads/stores
	Branch   bool // forward conditional branches with shadows
	Jumps    bool // j / jal / call-return via jalr
	Loops    bool // down-counting loops
	Ret      bool // may end by ret
	EndLabel bool // may end with a branch/jump to a label after the last instruction
	MemSize  int
	NData    int  // number of data registers used (2..8)
	NAddr    int  // number of address registers (1..3)
	Hot      int  // if >0: restrict memory accesses to this many lines (contention)
	WideWalk bool // address registers are re-pointed often over the whole memory (evictions)
	DivRem   bool
	SubWord  bool // lb/lh/sb/sh
	UseRa    bool // allow ra as link register
	DenseALU bool // fewer memory/branch ops
	LineSize int
}

var dataRegs = []string{"t0", "t1", "t2", "t3", "t4", "a0", "a1", "a2"}
var addrRegs = []string{"s0", "s1", "s2"}

type caseInput struct {
	Src  string    `json:"src"`
	Regs [32]int32 `json:"regs"`
	Mem  []int8    `json:"mem"`
}

func boundaryVal(r *rand.Rand) int32 {
	switch r.Intn(12) {
	case 0:
		return 0
	case 1:
		return 1
	case 2:
		return -1
	case 3:
		return -2147483648
	case 4:
		return 2147483647
	case 5:
		return int32(r.Uint32())
	case 6:
		return int32(r.Intn(256)) - 128
	case 7:
		return int32(r.Intn(65536)) - 32768
	case 8:
		return int32(1) << uint(r.Intn(32))
	case 9:
		return -(int32(1) << uint(r.Intn(31)))
	default:
		return int32(r.Intn(1000))
	}
}

type emitter struct {
	r      *rand.Rand
	c      genCfg
	sb     strings.Builder
	lbl    int
	count  int
	dr     []string
	ar     []string
	hot    []int  // hot line bases
	shared string // label of a shared subroutine (called from several sites, returns through jalr t6)
}

func (e *emitter) emit(format string, a ...any) {
	fmt.Fprintf(&e.sb, format+"\n", a...)
	e.count++
}
func (e *emitter) label(l string) { fmt.Fprintf(&e.sb, "%s:\n", l) }
func (e *emitter) newLabel() string {
	e.lbl++
	return fmt.Sprintf("L%d", e.lbl)
}
func (e *emitter) reg() string { return e.dr[e.r.Intn(len(e.dr))] }
func (e *emitter) regz() string {
	if e.r.Intn(12) == 0 {
		return "zero"
	}
	return e.reg()
}
func (e *emitter) imm12() int32 {
	switch e.r.Intn(6) {
	case 0:
		return int32(e.r.Intn(8))
	case 1:
		return -int32(e.r.Intn(8)) - 1
	case 2:
		return []int32{2047, -2048, 31, 32, 33, 63, 255, -256}[e.r.Intn(8)]
	default:
		return int32(e.r.Intn(4096)) - 2048
	}
}

// pointAddr emits "li base, addr" with addr word-aligned and with 64 bytes of
// slack on both sides so that bounded offsets stay in bounds.
func (e *emitter) pointAddr(base string) {
	var a int
	if e.c.Hot > 0 {
		a = e.hot[e.r.Intn(len(e.hot))] + 4*e.r.Intn(e.c.LineSize/4)
	} else {
		a = 64 + 4*e.r.Intn((e.c.MemSize-128)/4)
	}
	e.emit("li %s, %d", base, a)
}

func (e *emitter) offs(size int) int {
	if e.c.Hot > 0 {
		// stay within +-32 bytes so hot-line programs mostly hit the hot lines and neighbours
		return size * (e.r.Intn(64/size) - 32/size)
	}
	return size * (e.r.Intn(128/size) - 64/size)
}

func (e *emitter) memOp() {
	base := e.ar[e.r.Intn(len(e.ar))]
	m := e.r.Intn(100)
	rep := 8
	if e.c.WideWalk {
		rep = 30
	}
	switch {
	case m < rep:
		e.pointAddr(base)
	case m < 40:
		e.emit("lw %s, %d(%s)", e.reg(), e.offs(4), base)
	case m < 48:
		if e.c.SubWord {
			e.emit("lb %s, %d(%s)", e.reg(), e.offs(1), base)
		} else {
			e.emit("lw %s, %d(%s)", e.reg(), e.offs(4), base)
		}
	case m < 54:
		if e.c.SubWord {
			e.emit("lh %s, %d(%s)", e.reg(), e.offs(2), base)
		} else {
			e.emit("lw %s, %d(%s)", e.reg(), e.offs(4), base)
		}
	case m < 82:
		e.emit("sw %s, %d(%s)", e.regz(), e.offs(4), base)
	case m < 92:
		if e.c.SubWord {
			e.emit("sb %s, %d(%s)", e.regz(), e.offs(1), base)
		} else {
			e.emit("sw %s, %d(%s)", e.regz(), e.offs(4), base)
		}
	default:
		if e.c.SubWord {
			e.emit("sh %s, %d, %s", e.regz(), e.offs(2), base)
		} else {
			e.emit("sw %s, %d(%s)", e.regz(), e.offs(4), base)
		}
	}
}

var alu3 = []string{"add", "sub", "and", "or", "xor", "mul", "slt", "sltu", "sll", "srl", "sra"}
var alui = []string{"addi", "andi", "ori", "xori", "slti", "slli", "srli", "srai"}

func (e *emitter) aluOp() {
	k := e.r.Intn(100)
	switch {
	case k < 45:
		e.emit("%s %s, %s, %s", alu3[e.r.Intn(len(alu3))], e.regz(), e.regz(), e.regz())
	case k < 72:
		op := alui[e.r.Intn(len(alui))]
		im := e.imm12()
		if op == "slli" || op == "srli" || op == "srai" {
			im = int32(e.r.Intn(32))
		}
		e.emit("%s %s, %s, %d", op, e.regz(), e.regz(), im)
	case k < 82:
		e.emit("li %s, %d", e.reg(), boundaryVal(e.r))
	case k < 89:
		e.emit("mv %s, %s", e.reg(), e.regz())
	case k < 92:
		e.emit("lui %s, %d", e.reg(), e.r.Intn(1<<20))
	case k < 94:
		e.emit("auipc %s, %d", e.reg(), e.r.Intn(1<<20))
	case k < 95:
		e.emit("nop")
	default:
		if e.c.DivRem {
			// force a non-zero divisor in a scratch register
			d := e.reg()
			e.emit("ori %s, %s, 1", d, d)
			op := "div"
			if e.r.Intn(2) == 0 {
				op = "rem"
			}
			e.emit("%s %s, %s, %s", op, e.regz(), e.regz(), d)
		} else {
			e.emit("add %s, %s, %s", e.regz(), e.regz(), e.regz())
		}
	}
}

func (e *emitter) one() {
	memW := 35
	if e.c.DenseALU {
		memW = 12
	}
	if e.c.Mem && e.r.Intn(100) < memW {
		e.memOp()
		return
	}
	e.aluOp()
}

var condOps2 = []string{"beq", "bne", "blt", "bge", "ble", "bltu", "bgeu"}

func (e *emitter) condBranch(l string) {
	if e.r.Intn(4) == 0 {
		e.emit("%s %s, %s", []string{"beqz", "bnez"}[e.r.Intn(2)], e.regz(), l)
	} else {
		e.emit("%s %s, %s, %s", condOps2[e.r.Intn(len(condOps2))], e.regz(), e.regz(), l)
	}
}

func (e *emitter) body(n int, depth int, inLoop bool) {
	for i := 0; i < n && e.count < 230; i++ {
		k := e.r.Intn(100)
		switch {
		case e.c.Branch && k < 12 && depth < 3:
			l := e.newLabel()
			e.condBranch(l)
			e.body(1+e.r.Intn(6), depth+1, inLoop)
			e.label(l)
		case e.c.Jumps && k < 15 && depth < 3:
			l := e.newLabel()
			if e.r.Intn(2) == 0 {
				e.emit("jal %s, %s", e.reg(), l)
			} else {
				e.emit("j %s", l)
			}
			e.body(1+e.r.Intn(3), depth+1, inLoop)
			e.label(l)
		case e.c.Jumps && k < 19 && depth < 3 && e.shared != "":
			// call of the shared subroutine: the same jalr returns to a different site each time
			e.emit("jal t6, %s", e.shared)
		case e.c.Jumps && k < 17 && depth < 2:
			// call / return through jalr
			link := []string{"t5", "t6"}[e.r.Intn(2)]
			if e.shared != "" {
				link = "t5"
			}
			if e.c.UseRa && e.r.Intn(3) == 0 {
				link = "ra"
			}
			f, skip := e.newLabel(), e.newLabel()
			e.emit("jal %s, %s", link, f)
			e.emit("j %s", skip)
			e.label(f)
			e.body(1+e.r.Intn(3), 3, inLoop)
			e.emit("jalr %s, %s, 0", []string{"zero", e.reg()}[e.r.Intn(2)], link)
			e.label(skip)
		case e.c.Loops && k < 21 && depth == 0 && !inLoop:
			l := e.newLabel()
			e.emit("li s3, %d", 1+e.r.Intn(4))
			e.label(l)
			e.body(1+e.r.Intn(6), depth+1, true)
			e.emit("addi s3, s3, -1")
			e.emit("bnez s3, %s", l)
		default:
			e.one()
		}
	}
}

func newEmitter(r *rand.Rand, c genCfg) *emitter {
	if c.NData < 2 {
		c.NData = 2
	}
	if c.NData > len(dataRegs) {
		c.NData = len(dataRegs)
	}
	if c.NAddr < 1 {
		c.NAddr = 1
	}
	if c.NAddr > 3 {
		c.NAddr = 3
	}
	if c.LineSize == 0 {
		c.LineSize = 64
	}
	e := &emitter{r: r, c: c, dr: dataRegs[:c.NData], ar: addrRegs[:c.NAddr]}
	if c.Hot > 0 {
		nl := c.MemSize / c.LineSize
		for i := 0; i < c.Hot; i++ {
			e.hot = append(e.hot, c.LineSize*(1+r.Intn(nl-2)))
		}
	}
	return e
}

func (e *emitter) initState() ([32]int32, []int8) {
	var regs [32]int32
	for _, d := range e.dr {
		regs[regIdx(d)] = boundaryVal(e.r)
	}
	for _, a := range e.ar {
		if e.c.Hot > 0 {
			regs[regIdx(a)] = int32(e.hot[e.r.Intn(len(e.hot))] + 4*e.r.Intn(e.c.LineSize/4))
		} else {
			regs[regIdx(a)] = int32(64 + 4*e.r.Intn((e.c.MemSize-128)/4))
		}
	}
	mem := make([]int8, e.c.MemSize)
	for i := range mem {
		mem[i] = int8(e.r.Intn(256))
	}
	return regs, mem
}

// genMixed: the general-purpose family.
func genProgram(r *rand.Rand, c genCfg) caseInput {
	e := newEmitter(r, c)
	regs, mem := e.initState()
	if c.Jumps && r.Intn(3) == 0 {
		// a shared subroutine at the top, jumped over on entry
		f, over := e.newLabel(), e.newLabel()
		e.emit("j %s", over)
		e.label(f)
		e.body(1+r.Intn(4), 3, false)
		e.emit("jalr zero, t6, 0")
		e.label(over)
		e.shared = f
	}
	e.body(c.N, 0, false)
	end := e.r.Intn(6)
	switch {
	case c.Ret && end < 2:
		e.emit("ret")
		if e.r.Intn(2) == 0 {
			// program text after the return (never executed): fetch and decode keep running into it
			e.body(2+e.r.Intn(8), 3, false)
		}
	case c.EndLabel && end == 2:
		// conditional or unconditional transfer to a label placed after the last instruction
		l := e.newLabel()
		if e.r.Intn(2) == 0 {
			e.emit("j %s", l)
		} else {
			e.emit("beq zero, zero, %s", l)
		}
		e.body(1+e.r.Intn(3), 3, false)
		e.label(l)
	}
	return caseInput{Src: e.sb.String(), Regs: regs, Mem: mem}
}
