package main

// Lockstep oracle: aligns the machine's event log (hook H2) with the
// reference trace, per dynamic instruction, and classifies the first
// divergence.

import (
	"fmt"
	"sort"
	"strings"

	"github.com/teivah/majorana/risc"
)

// effect is the comparable architectural effect of one executed instruction.
type effect struct {
	HasReg bool
	Reg    int
	Val    int32
	Store  map[int32]int8
	Taken  bool
	Next   int32
	Ret    bool
}

func (e effect) String() string {
	s := ""
	if e.HasReg {
		s += fmt.Sprintf("%s=%d ", regNames[e.Reg], e.Val)
	}
	if e.Store != nil {
		ks := make([]int, 0, len(e.Store))
		for k := range e.Store {
			ks = append(ks, int(k))
		}
		sort.Ints(ks)
		for _, k := range ks {
			s += fmt.Sprintf("m[%d]=%d ", k, e.Store[int32(k)])
		}
	}
	if e.Taken {
		s += fmt.Sprintf("->%d ", e.Next)
	}
	if e.Ret {
		s += "ret "
	}
	if s == "" {
		return "(none)"
	}
	return s
}

func effectEqual(a, b effect) bool {
	if a.HasReg != b.HasReg || a.Taken != b.Taken || a.Ret != b.Ret {
		return false
	}
	if a.HasReg && (a.Reg != b.Reg || a.Val != b.Val) {
		return false
	}
	if a.Taken && a.Next != b.Next {
		return false
	}
	if len(a.Store) != len(b.Store) {
		return false
	}
	for k, v := range a.Store {
		if w, ok := b.Store[k]; !ok || w != v {
			return false
		}
	}
	return true
}

func effectOfExec(x risc.Execution) effect {
	e := effect{Ret: x.Return}
	if x.RegisterChange && x.Register != risc.Zero {
		e.HasReg = true
		e.Reg = int(x.Register)
		e.Val = x.RegisterValue
	}
	if x.MemoryChange {
		e.Store = map[int32]int8{}
		for k, v := range x.MemoryChanges {
			e.Store[k] = v
		}
	}
	if x.PcChange {
		e.Taken = true
		e.Next = x.NextPc
	}
	return e
}

func effectOfRef(in rIns, r evalResult) effect {
	e := effect{Ret: r.Ret}
	if r.WroteReg && in.Rd != 0 {
		e.HasReg = true
		e.Reg = in.Rd
		e.Val = r.Val
	}
	if r.Store != nil {
		e.Store = map[int32]int8{}
		for i, v := range r.Store {
			e.Store[r.Addr+int32(i)] = v
		}
	}
	if r.Taken {
		e.Taken = true
		e.Next = r.Next
	}
	return e
}

// dynIns is one decoded (or, for in-order variants, executed) dynamic instruction.
type dynIns struct {
	Seq, Pc              int32
	Squashed             bool
	Exec                 int // index into log, -1 if never executed
	ExecN                int // number of exec records matched
	RegWB                int // count of register write-back events
	Stores               int // count of store-performed events
	Mode                 int // dispatch mode: 0 plain, 1 forward, 2 rename
	FwdFrom              int32
	DispCycle, ExecCycle int // cycle of the first dispatch event and of the execution record
	WBCycle              int // cycle of the first register write-back event (0 if none)
	WBIdx, DispIdx       int // log positions of the first write-back / dispatch event (0 if none; the log starts with a decode)
}

type lsStats struct {
	Decoded, Executed, Squashed   int
	SquashedExecuted              int
	SquashedStores, SquashedRegWB int
	Flushes                       int
	Forwards, ChainedForwards     int
	Renames                       int
	MaxInFlightAtExit             int
	FlushOlderUnexecuted          bool // at some flush an instruction older than the flushing branch had not executed yet
	LostInstructions              int
}

type lsResult struct {
	OK     bool
	Class  string // path-divergence | wrong-result | lost-instruction | extra-instruction | duplicate-exec | exec-without-decode | wrong-path-store | log-truncated
	Sub    string // explanation class, e.g. stale-operand(t1,age=1,writers=2)
	Step   int    // reference step of the first divergence (-1 if n/a)
	Pc     int32
	Detail string
	Stats  lsStats
	Dyn    []dynIns
	Surv   []int    // indexes into Dyn of the surviving (not squashed) instructions, in program order
	Mech   []string // mechanism signatures observed in the machine's own event log (dynamic triggers)
}

// buildDyn reconstructs the dynamic instruction stream in program (fetch)
// order from the log.
func buildDyn(c config, log []risc.VerifRec) ([]dynIns, lsStats, string) {
	var st lsStats
	var dyn []dynIns
	anomaly := ""
	cls := variantClass(c.V)
	if cls == 1 || cls == 4 {
		for i, r := range log {
			if r.Kind == risc.VerifKindExec {
				dyn = append(dyn, dynIns{Seq: r.Seq, Pc: r.Pc, Exec: i, ExecN: 1})
			}
		}
		st.Decoded, st.Executed = len(dyn), len(dyn)
		return dyn, st, ""
	}
	// bySeq: seq -> indexes into dyn (in decode order)
	bySeq := map[int32][]int{}
	for i, r := range log {
		switch r.Kind {
		case risc.VerifKindDecode:
			bySeq[r.Seq] = append(bySeq[r.Seq], len(dyn))
			dyn = append(dyn, dynIns{Seq: r.Seq, Pc: r.A, Exec: -1})
		case risc.VerifKindExec:
			found := false
			for _, di := range bySeq[r.Seq] {
				d := &dyn[di]
				if d.Pc == r.Pc && d.Exec == -1 && !d.Squashed {
					d.Exec = i
					d.ExecN = 1
					d.ExecCycle = r.Cycle
					found = true
					break
				}
			}
			if !found {
				// a second execution of an already executed dynamic instruction, or an unknown one
				for _, di := range bySeq[r.Seq] {
					d := &dyn[di]
					if d.Pc == r.Pc {
						d.ExecN++
						found = true
						if anomaly == "" {
							anomaly = fmt.Sprintf("duplicate-exec seq=%d pc=%d", r.Seq, r.Pc)
						}
						break
					}
				}
				if !found && anomaly == "" {
					anomaly = fmt.Sprintf("exec-without-decode seq=%d pc=%d", r.Seq, r.Pc)
				}
			}
		case risc.VerifKindFlush:
			st.Flushes++
			// the flushing branch: most recent executed entry with this seq
			bi := -1
			for k := len(bySeq[r.Seq]) - 1; k >= 0; k-- {
				if dyn[bySeq[r.Seq][k]].Exec != -1 {
					bi = bySeq[r.Seq][k]
					break
				}
			}
			if bi == -1 {
				if anomaly == "" {
					anomaly = fmt.Sprintf("flush-without-branch seq=%d", r.Seq)
				}
				continue
			}
			for k := 0; k < bi; k++ {
				// exec events are attached in log order, so Exec == -1 means "not executed when the flush happened"
				if !dyn[k].Squashed && dyn[k].Exec == -1 {
					st.FlushOlderUnexecuted = true
				}
			}
			for k := bi + 1; k < len(dyn); k++ {
				dyn[k].Squashed = true
			}
		case risc.VerifKindRegWB, risc.VerifKindStore, risc.VerifKindDispatch:
			// attach to the most recent non-squashed entry with that seq
			idx := bySeq[r.Seq]
			for k := len(idx) - 1; k >= 0; k-- {
				d := &dyn[idx[k]]
				if d.Squashed {
					continue
				}
				switch r.Kind {
				case risc.VerifKindRegWB:
					d.RegWB++
					if d.WBCycle == 0 {
						d.WBCycle = r.Cycle
						d.WBIdx = i
					}
				case risc.VerifKindStore:
					d.Stores++
				case risc.VerifKindDispatch:
					if d.DispCycle == 0 {
						d.DispCycle = r.Cycle
						d.DispIdx = i
					}
					if int(r.A) > d.Mode {
						d.Mode = int(r.A)
					}
					if r.A == 1 {
						d.FwdFrom = r.B
					}
				}
				break
			}
		}
	}
	fwd := map[int32]bool{}
	for i := range dyn {
		d := &dyn[i]
		st.Decoded++
		if d.Exec != -1 {
			st.Executed++
		}
		if d.Squashed {
			st.Squashed++
			if d.Exec != -1 {
				st.SquashedExecuted++
			}
			st.SquashedStores += d.Stores
			st.SquashedRegWB += d.RegWB
		}
		switch d.Mode {
		case 1:
			st.Forwards++
			fwd[d.Seq] = true
			if fwd[d.FwdFrom] {
				st.ChainedForwards++
			}
		case 2:
			st.Renames++
		}
	}
	return dyn, st, anomaly
}

// lockstep compares the machine log with the reference trace.
func lockstep(c config, p rProg, ref *refState, obs *observation) lsResult {
	res := lsResult{Step: -1}
	if obs.Dropped > 0 {
		res.Class = "log-truncated"
		return res
	}
	dyn, st, anomaly := buildDyn(c, obs.Log)
	res.Stats = st
	res.Dyn = dyn
	res.Mech = mechanismSignatures(p, dyn, obs)
	if st.FlushOlderUnexecuted {
		// MVP-6.0's flush resets every execute unit and the control unit's queue, whatever their age
		res.Mech = append(res.Mech, "flush-with-older-unexecuted")
	}
	if st.SquashedRegWB > 0 && c.V == "mvp6-2" {
		// MVP-6.2 keeps one uncommitted value per register: a squashed instruction's write replaced an older one
		res.Mech = append(res.Mech, "wrong-path-transaction-write")
	}
	// survivors in program order
	var surv []int
	for i := range dyn {
		if !dyn[i].Squashed {
			surv = append(surv, i)
		}
	}
	res.Surv = surv
	// MVP-6.0/6.1 write results straight into the register file: a register
	// write-back by a squashed instruction is an architectural wrong-path effect.
	if (c.V == "mvp6-0" || c.V == "mvp6-1") && st.SquashedRegWB > 0 {
		for _, d := range dyn {
			if d.Squashed && d.RegWB > 0 {
				res.Class = "wrong-path-regwrite"
				res.Pc = d.Pc
				res.Detail = fmt.Sprintf("squashed instruction pc=%d seq=%d wrote its result into the register file", d.Pc, d.Seq)
				return res
			}
		}
	}
	if res.Stats.SquashedStores > 0 {
		for _, d := range dyn {
			if d.Squashed && d.Stores > 0 {
				res.Class = "wrong-path-store"
				res.Pc = d.Pc
				res.Detail = fmt.Sprintf("squashed instruction pc=%d seq=%d performed a store", d.Pc, d.Seq)
				return res
			}
		}
	}
	n := len(ref.Trace)
	for k := 0; k < n; k++ {
		step := ref.Trace[k]
		if k >= len(surv) {
			res.Class = "lost-instruction"
			res.Step = k
			res.Pc = step.Pc
			res.Detail = fmt.Sprintf("reference step %d (%s) was never fetched/decoded on the surviving path", k, p.Ins[step.Idx].Text)
			res.Stats.LostInstructions = n - k
			return res
		}
		d := dyn[surv[k]]
		if d.Pc != step.Pc {
			res.Class = "path-divergence"
			res.Step = k
			res.Pc = step.Pc
			res.Detail = fmt.Sprintf("step %d: reference executes pc=%d (%s), machine's surviving stream has pc=%d", k, step.Pc, p.Ins[step.Idx].Text, d.Pc)
			return res
		}
		if d.Exec == -1 {
			res.Class = "lost-instruction"
			res.Step = k
			res.Pc = step.Pc
			res.Detail = fmt.Sprintf("step %d pc=%d (%s) was decoded, not squashed by any flush, and never executed", k, step.Pc, p.Ins[step.Idx].Text)
			return res
		}
		in := p.Ins[step.Idx]
		want := effectOfRef(in, step.Res)
		got := effectOfExec(obs.Log[d.Exec].Exe)
		if !effectEqual(want, got) {
			res.Class = "wrong-result"
			res.Step = k
			res.Pc = step.Pc
			timing := ""
			res.Sub = explain(p, ref, k, got, obs.Log[d.Exec].Mem, squashedRegVals(dyn, obs))
			if strings.HasPrefix(res.Sub, "stale-operand(") && d.DispCycle > 0 {
				// The instruction used an older value of a register. The known renaming gap (two writers of one
				// register in flight) explains that only if a writer of the register (the right producer or an
				// older one) was still in flight when the consumer was dispatched, or an older writer's result
				// landed after the producer's. If every older writer had written back, in order, before the
				// dispatch, the value was there and was lost or not found: a different mechanism.
				// (Tested on every source register: the same wrong result can often be explained by a stale value
				// of either operand, and the explanation names only the first that fits.)
				possible := false // could the known gap explain a stale value of some source register?
				var witness string
				for _, reg := range in.srcRegs() {
					prod := -1
					for j := k - 1; j >= 0 && reg > 0; j-- {
						t := ref.Trace[j]
						if t.Res.WroteReg && p.Ins[t.Idx].Rd == reg {
							prod = j
							break
						}
					}
					if prod < 0 || prod >= len(surv) {
						continue
					}
					// positions in the event log give the order of events inside one cycle as well
					pd := dyn[surv[prod]]
					if pd.WBIdx == 0 || pd.WBIdx > d.DispIdx {
						possible = true
					}
					for j := prod - 1; j >= 0; j-- {
						t := ref.Trace[j]
						if t.Res.WroteReg && p.Ins[t.Idx].Rd == reg {
							// an older writer that was still in flight at the dispatch, or that landed after the producer
							if w := dyn[surv[j]].WBIdx; w == 0 || w > d.DispIdx || w > pd.WBIdx {
								possible = true
							}
						}
					}
					// a younger writer whose result landed before the consumer executed (in a loop its value often
					// equals an older one, so a write-after-read slip can look like a stale operand)
					for j := k + 1; j < len(ref.Trace) && j < len(surv) && j <= k+16; j++ {
						t := ref.Trace[j]
						if t.Res.WroteReg && p.Ins[t.Idx].Rd == reg {
							if w := dyn[surv[j]].WBIdx; w > 0 && w < d.Exec {
								possible = true
							}
						}
					}
					witness += fmt.Sprintf(" producer of %s (step %d) wrote back in cycle %d;", regNames[reg], prod, pd.WBCycle)
				}
				if !possible && witness != "" {
					// the same bits may also be a wrong-path or a younger value: those have their own mechanisms
					explainNoStale = true
					alt := explain(p, ref, k, got, obs.Log[d.Exec].Mem, squashedRegVals(dyn, obs))
					explainNoStale = false
					if strings.HasPrefix(alt, "wrong-path-operand") || strings.HasPrefix(alt, "future-operand") {
						res.Sub = alt
					}
				}
				if !possible && witness != "" && strings.HasPrefix(res.Sub, "stale-operand(") {
					res.Sub = strings.Replace(res.Sub, "stale-operand(", "stale-operand-avail(", 1)
					timing = fmt.Sprintf(" {%s consumer dispatched in cycle %d, executed in %d; no older writer of a source register in flight or landing out of order, no younger writer landed before the execution}", witness, d.DispCycle, d.ExecCycle)
				}
			}
			if strings.HasPrefix(res.Sub, "future-load") && d.DispCycle > 0 {
				// A load returned the data of a younger store. Which mechanism?
				//  reordered: the store was dispatched before, or in the same cycle as, the (older) load, or it executed
				//             before the load (stalled by back-pressure) captured its bytes;
				//  miss:      the load was dispatched first but stayed in flight for the memory latency;
				//  hit:       the load was dispatched first and completed quickly, yet saw the store.
				kind := "hit"
				if d.ExecCycle-d.DispCycle >= 200 {
					kind = "miss"
				}
				var dist int
				if _, err := fmt.Sscanf(res.Sub, "future-load(dist=%d)", &dist); err == nil && k+dist < len(surv) {
					st := dyn[surv[k+dist]]
					// a load that hits captures its bytes 50 cycles (the L3 latency) before its execution record
					if st.DispCycle > 0 && (st.DispCycle <= d.DispCycle || (kind == "hit" && st.ExecCycle > 0 && st.ExecCycle <= d.ExecCycle-50)) {
						kind = "reordered"
					}
				}
				res.Sub = strings.Replace(res.Sub, "future-load", "future-load-"+kind, 1)
				timing = fmt.Sprintf(" {load dispatched in cycle %d, executed in %d", d.DispCycle, d.ExecCycle)
				if k+dist < len(surv) {
					st := dyn[surv[k+dist]]
					timing += fmt.Sprintf("; store dispatched in %d, executed in %d", st.DispCycle, st.ExecCycle)
				}
				timing += "}"
			}
			cm := commitMechanisms(p, ref, dyn, surv, obs, in.srcRegs(), k)
			if strings.HasPrefix(res.Sub, "stale-operand(") && len(cm) == 0 && c.V != "mvp6-0" && c.V != "mvp6-1" {
				// Nothing in the event log supports an older value (no commit in between). The same bits - for a
				// branch: the same decision - can often be produced by a wrong-path or a younger value as well;
				// those readings have their own mechanisms and findings, so they are preferred here.
				explainNoStale = true
				alt := explain(p, ref, k, got, obs.Log[d.Exec].Mem, squashedRegVals(dyn, obs))
				explainNoStale = false
				if strings.HasPrefix(alt, "wrong-path-operand") || strings.HasPrefix(alt, "future-operand") {
					res.Sub = alt
				}
			}
			res.Mech = append(res.Mech, cm...)
			res.Detail = fmt.Sprintf("step %d pc=%d (%s): reference %s, machine %s [%s]%s", k, step.Pc, in.Text, want, got, res.Sub, timing)
			return res
		}
		if d.ExecN > 1 {
			res.Class = "duplicate-exec"
			res.Step = k
			res.Pc = step.Pc
			res.Detail = fmt.Sprintf("step %d pc=%d executed %d times", k, step.Pc, d.ExecN)
			return res
		}
	}
	if len(surv) > n {
		// Instructions fetched past the exit point (after ret, or after the last executed instruction) are
		// speculative like any wrong-path work: executing them is allowed, an architectural effect is not.
		// A store they perform is reported here; a register result that reaches the register file is seen by
		// the final-state oracle.
		for _, si := range surv[n:] {
			if dyn[si].Stores > 0 {
				res.Class = "wrong-path-store"
				res.Pc = dyn[si].Pc
				res.Detail = fmt.Sprintf("instruction pc=%d after the exit point performed a store", dyn[si].Pc)
				return res
			}
			if dyn[si].Exec != -1 {
				res.Stats.SquashedExecuted++
			}
		}
	}
	if res.Stats.SquashedStores > 0 {
		for _, d := range dyn {
			if d.Squashed && d.Stores > 0 {
				res.Class = "wrong-path-store"
				res.Pc = d.Pc
				res.Detail = fmt.Sprintf("squashed instruction pc=%d seq=%d performed a store", d.Pc, d.Seq)
				return res
			}
		}
	}
	if anomaly != "" {
		res.Class = "log-anomaly"
		res.Detail = anomaly
		return res
	}
	res.OK = true
	return res
}

// explain tries to reproduce the observed effect of reference step k by
// re-evaluating the instruction with alternative inputs.
// explainNoStale makes explain skip stale-value candidates (set only for the retry in lockstep: when no
// known mechanism can have handed the instruction an older value, another reading of the same bits is looked for).
var explainNoStale bool

func explain(p rProg, ref *refState, k int, got effect, gotMem []int8, wrongPath map[int][]int32) string {
	step := ref.Trace[k]
	in := p.Ins[step.Idx]
	// history of register values before step k: for each register the list of values (newest first)
	hist := func(reg int) (vals []int32, steps []int) {
		for j := k - 1; j >= 0; j-- {
			t := ref.Trace[j]
			pin := p.Ins[t.Idx]
			if t.Res.WroteReg && pin.Rd == reg && reg != 0 {
				vals = append(vals, t.Res.Val)
				steps = append(steps, j)
			}
		}
		return
	}
	initial := func(reg int) int32 {
		// value before the program started = current value rolled back through all writes
		return refInitial(ref, p, reg)
	}
	writersInWindow := func(reg int, w int) int {
		n := 0
		for j := k - 1; j >= 0 && j >= k-w; j-- {
			t := ref.Trace[j]
			if t.Res.WroteReg && p.Ins[t.Idx].Rd == reg && reg != 0 {
				n++
			}
		}
		return n
	}
	try := func(a, b int32, loaded []int8) bool {
		if isLoad(in.Op) && a != step.A {
			// a different base register value means a different address: use the bytes found there
			sz := accessSize(in.Op)
			addr := a + in.Imm
			if addr < 0 || int(addr+sz) > len(ref.InitMem) {
				return false
			}
			loaded = memBefore(ref, p, k, addr, sz)
		}
		r := evalIns(in, step.Pc, a, b, loaded, p.Labels)
		if r.Err != "" {
			return false
		}
		return effectEqual(effectOfRef(in, r), got)
	}
	// stale load: loaded bytes differ
	loadDataWrong := false
	if isLoad(in.Op) && gotMem != nil && len(gotMem) == len(step.Loaded) {
		same := true
		for i := range gotMem {
			if gotMem[i] != step.Loaded[i] {
				same = false
			}
		}
		if !same {
			addr, sz := step.Res.Addr, step.Res.Size
			// per byte: the values the byte held at any earlier time (initial image and every older store),
			// and the values younger stores (next 12 steps) give it
			past := make([]map[int8]bool, sz)
			future := make([]map[int8]bool, sz)
			for i := range past {
				past[i] = map[int8]bool{ref.InitMem[addr+int32(i)]: true}
				future[i] = map[int8]bool{}
			}
			nearest := 0
			for j := 0; j < len(ref.Trace) && j <= k+12; j++ {
				t := ref.Trace[j]
				if t.Res.Store == nil || j == k {
					continue
				}
				for x, v := range t.Res.Store {
					a := t.Res.Addr + int32(x)
					if a >= addr && a < addr+sz {
						if j < k {
							past[a-addr][v] = true
						} else {
							future[a-addr][v] = true
							if nearest == 0 {
								nearest = j - k
							}
						}
					}
				}
			}
			allPast, allKnown := true, true
			for i := range gotMem {
				if !past[i][gotMem[i]] {
					allPast = false
					if !future[i][gotMem[i]] {
						allKnown = false
					}
				}
			}
			if allPast {
				return "stale-load"
			}
			if allKnown {
				return fmt.Sprintf("future-load(dist=%d)", nearest)
			}
			loadDataWrong = true
		}
	}
	srcs := in.srcRegs()
	type cand struct {
		v    int32
		kind int // 0 current, 1 stale, 2 future, 3 wrong-path
		age  int
	}
	cands := func(r int, cur int32) []cand {
		cs := []cand{{cur, 0, 0}}
		vals, _ := hist(r)
		vals = append(vals, initial(r))
		for age := 1; age < len(vals) && !explainNoStale; age++ {
			// up to 12 writes back, and always the value the register had before the program started
			if age <= 12 || age == len(vals)-1 {
				cs = append(cs, cand{vals[age], 1, age})
			}
		}
		for _, v := range wrongPath[r] {
			cs = append(cs, cand{v, 3, 0})
		}
		for j := k + 1; j < len(ref.Trace) && j <= k+40; j++ {
			t := ref.Trace[j]
			if t.Res.WroteReg && p.Ins[t.Idx].Rd == r {
				cs = append(cs, cand{t.Res.Val, 2, j - k})
			}
		}
		return cs
	}
	name := func(c cand, r int) string {
		switch c.kind {
		case 1:
			return fmt.Sprintf("stale-operand(%s,age=%d,writers=%d)", regNames[r], c.age, writersInWindow(r, 8))
		case 2:
			return fmt.Sprintf("future-operand(%s,dist=%d)", regNames[r], c.age)
		case 3:
			return fmt.Sprintf("wrong-path-operand(%s)", regNames[r])
		}
		return ""
	}
	switch len(srcs) {
	case 1:
		r := srcs[0]
		cur := step.A
		if in.Rs1 != r {
			cur = step.B
		}
		for _, c := range cands(r, cur)[1:] {
			a, b := step.A, step.B
			if in.Rs1 == r {
				a = c.v
			}
			if in.Rs2 == r {
				b = c.v
			}
			if try(a, b, step.Loaded) {
				return name(c, r)
			}
		}
	case 2:
		// srcs[0] is rs1 unless rs1 is zero/absent
		r1, r2 := in.Rs1, in.Rs2
		c1 := []cand{{step.A, 0, 0}}
		c2 := []cand{{step.B, 0, 0}}
		if r1 != 0 {
			c1 = cands(r1, step.A)
		}
		if r2 != 0 {
			c2 = cands(r2, step.B)
		}
		// single-operand explanations first; among them prefer a stale value over a wrong-path value over a
		// future value (the same bits can often be explained in more than one way)
		for _, kind := range []int{1, 3, 2} {
			for _, x := range c1[1:] {
				if x.kind == kind && try(x.v, step.B, step.Loaded) {
					return name(x, r1)
				}
			}
			for _, y := range c2[1:] {
				if y.kind == kind && try(step.A, y.v, step.Loaded) {
					return name(y, r2)
				}
			}
		}
		for _, x := range c1[1:] {
			for _, y := range c2[1:] {
				if try(x.v, y.v, step.Loaded) {
					worst := x
					wr := r1
					if y.kind > x.kind {
						worst, wr = y, r2
					}
					n := name(worst, wr)
					return strings.Replace(n, "-operand(", "-operands(", 1)
				}
			}
		}
	}
	if loadDataWrong {
		return "wrong-load-data"
	}
	return "unexplained"
}

func refInitial(ref *refState, p rProg, reg int) int32 { return ref.InitRegs[reg] }

// memBefore returns memory [addr,addr+sz) as it was just before reference step j.
func memBefore(ref *refState, p rProg, j int, addr, sz int32) []int8 {
	out := append([]int8(nil), ref.InitMem[addr:addr+sz]...)
	for i := 0; i < j && i < len(ref.Trace); i++ {
		t := ref.Trace[i]
		if t.Res.Store == nil {
			continue
		}
		for x, v := range t.Res.Store {
			a := t.Res.Addr + int32(x)
			if a >= addr && a < addr+sz {
				out[a-addr] = v
			}
		}
	}
	return out
}

// squashedRegVals collects, per register, the values computed by squashed instructions.
func squashedRegVals(dyn []dynIns, obs *observation) map[int][]int32 {
	m := map[int][]int32{}
	for _, d := range dyn {
		if d.Squashed && d.Exec >= 0 {
			e := effectOfExec(obs.Log[d.Exec].Exe)
			if e.HasReg {
				m[e.Reg] = append(m[e.Reg], e.Val)
			}
		}
	}
	return m
}

// commitMechanisms looks, in the machine's own event log, for the one known way in which the renaming variants
// (MVP-6.3+) still mishandle a register after the tag-order fixes: a conditional branch resolves - which commits or
// rolls back the speculative register state as a whole and forgets the tags - while an instruction older than that
// branch is still in flight.
//
//	older-writer-landed-after-commit: for a register in regs, the right producer (last writer before step k) had
//	    written back, a conditional branch executed, and then an older writer of the same register wrote back;
//	older-reader-executed-after-commit: a younger writer (after step k) of a register in regs wrote back, a
//	    conditional branch executed, and only then did the instruction at step k execute.
//
// k == len(ref.Trace) asks about the final state (only the first tag applies).
func commitMechanisms(p rProg, ref *refState, dyn []dynIns, surv []int, obs *observation, regs []int, k int) []string {
	isCond := func(pc int32) bool {
		i := int(pc / 4)
		return i >= 0 && i < len(p.Ins) && isCondBranch(p.Ins[i].Op)
	}
	branchBetween := func(a, b int) bool {
		for i := a + 1; i < b && i < len(obs.Log); i++ {
			if r := obs.Log[i]; r.Kind == risc.VerifKindExec && isCond(r.Pc) {
				return true
			}
		}
		return false
	}
	landed, readLate := false, false
	for _, reg := range regs {
		if reg <= 0 {
			continue
		}
		prod := -1
		for j := k - 1; j >= 0; j-- {
			if j < len(surv) && ref.Trace[j].Res.WroteReg && p.Ins[ref.Trace[j].Idx].Rd == reg {
				prod = j
				break
			}
		}
		if prod >= 0 {
			pw := dyn[surv[prod]].WBIdx
			for j := prod - 1; j >= 0 && pw > 0; j-- {
				if ref.Trace[j].Res.WroteReg && p.Ins[ref.Trace[j].Idx].Rd == reg {
					if w := dyn[surv[j]].WBIdx; w > pw && branchBetween(pw, w) {
						landed = true
					}
				}
			}
		}
		if k < len(ref.Trace) && k < len(surv) && dyn[surv[k]].Exec > 0 {
			// younger in fetch order, squashed or not: a value that a younger branch committed too early may come
			// from an instruction that was squashed afterwards
			ci := surv[k]
			for dj := ci + 1; dj < len(dyn) && dj <= ci+48; dj++ {
				ii := int(dyn[dj].Pc / 4)
				if ii < 0 || ii >= len(p.Ins) || p.Ins[ii].Rd != reg {
					continue
				}
				if w := dyn[dj].WBIdx; w > 0 && w < dyn[ci].Exec && branchBetween(w, dyn[ci].Exec) {
					readLate = true
				}
			}
		}
	}
	// rename-ring-overflow: the rename table keeps the last 10 uncommitted values of a register and nothing
	// stops the 11th writer; a reader that has been parked since before those writes then finds no value of
	// its own age in the ring and falls back to the committed one. Counted here: write-backs of a source
	// register since the last resolved conditional branch (the last commit) before the instruction executed.
	overflow := false
	if k < len(ref.Trace) && k < len(surv) && dyn[surv[k]].Exec > 0 {
		for _, reg := range regs {
			n := 0
			for i := dyn[surv[k]].Exec - 1; i >= 0 && reg > 0; i-- {
				r := obs.Log[i]
				if r.Kind == risc.VerifKindExec && isCond(r.Pc) {
					break
				}
				if r.Kind == risc.VerifKindRegWB && int(r.A) == reg {
					n++
				}
			}
			if n >= 10 {
				overflow = true
			}
		}
	}
	var out []string
	if overflow {
		out = append(out, "rename-ring-overflow")
	}
	if landed {
		out = append(out, "older-writer-landed-after-commit")
	}
	if readLate {
		out = append(out, "older-reader-executed-after-commit")
	}
	return out
}

// mechanismSignatures derives triggers from the machine's own event log:
//
//	early-commit: a conditional branch resolved not-taken (which commits all speculative
//	              register state) while an older conditional branch had been decoded and
//	              not yet executed;
//	nested-flush: a flush was requested by a branch that was itself squashed later, or two
//	              conditional branches were in flight together.
func mechanismSignatures(p rProg, dyn []dynIns, obs *observation) []string {
	early, nested := false, false
	isCond := func(pc int32) bool {
		i := int(pc / 4)
		return i >= 0 && i < len(p.Ins) && isCondBranch(p.Ins[i].Op)
	}
	for i, d := range dyn {
		if d.Exec < 0 || !isCond(d.Pc) {
			continue
		}
		taken := obs.Log[d.Exec].Exe.PcChange
		for j := 0; j < i; j++ {
			o := dyn[j]
			if !isCond(o.Pc) {
				continue
			}
			if o.Exec < 0 || o.Exec > d.Exec {
				// an older conditional branch was still unresolved when this one executed
				nested = true
				if !taken {
					early = true
				}
			}
		}
	}
	// commit-with-older-in-flight: a conditional branch resolved (which commits or rolls back the speculative
	// register state as a whole) while an instruction older than the branch had not executed or not written back
	// yet. What that older instruction writes lands on top of the committed younger values, and what it reads
	// comes from them.
	olderInFlight := false
	for i, d := range dyn {
		if d.Exec < 0 || d.Squashed || !isCond(d.Pc) {
			continue
		}
		for j := 0; j < i && !olderInFlight; j++ {
			o := dyn[j]
			if o.Squashed {
				continue
			}
			if o.Exec < 0 || o.Exec > d.Exec || o.WBIdx > d.Exec {
				olderInFlight = true
			}
		}
		if olderInFlight {
			break
		}
	}
	var out []string
	if olderInFlight {
		out = append(out, "commit-with-older-in-flight")
	}
	if early {
		out = append(out, "early-commit")
	}
	if nested {
		out = append(out, "nested-branches")
	}
	return out
}
