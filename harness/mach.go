package main

import (
	"fmt"
	"os"
	"runtime"
	"runtime/debug"
	"strings"

	"github.com/teivah/majorana/proc/comp"
	"github.com/teivah/majorana/proc/mvp1"
	"github.com/teivah/majorana/proc/mvp2"
	"github.com/teivah/majorana/proc/mvp3"
	"github.com/teivah/majorana/proc/mvp4"
	"github.com/teivah/majorana/proc/mvp5"
	mvp6_0 "github.com/teivah/majorana/proc/mvp6-0"
	mvp6_1 "github.com/teivah/majorana/proc/mvp6-1"
	mvp6_2 "github.com/teivah/majorana/proc/mvp6-2"
	mvp6_3 "github.com/teivah/majorana/proc/mvp6-3"
	mvp7_0 "github.com/teivah/majorana/proc/mvp7-0"
	mvp7_1 "github.com/teivah/majorana/proc/mvp7-1"
	mvp8_0 "github.com/teivah/majorana/proc/mvp8-0"
	"github.com/teivah/majorana/risc"
)

type vm interface {
	Run(app risc.Application) (int, error)
	Context() *risc.Context
}

type snapper interface {
	VerifSnapshot() comp.VerifMSISnap
}

// config = variant + parallelism
type config struct {
	V  string `json:"v"`
	EU int    `json:"eu,omitempty"`
	WU int    `json:"wu,omitempty"`
}

func (c config) String() string {
	switch variantClass(c.V) {
	case 6:
		return fmt.Sprintf("%s/eu%d/wu%d", c.V, c.EU, c.WU)
	case 7:
		return fmt.Sprintf("%s/c%d", c.V, c.EU)
	}
	return c.V
}

var variantNames = []string{"mvp1", "mvp2", "mvp3", "mvp4", "mvp5", "mvp6-0", "mvp6-1", "mvp6-2", "mvp6-3", "mvp7-0", "mvp7-1", "mvp8-0"}

// variantClass: 1 sequential (1-3), 4 in-order pipeline (4,5), 6 = 6.x, 7 = 7.x/8
func variantClass(v string) int {
	switch v {
	case "mvp1", "mvp2", "mvp3":
		return 1
	case "mvp4", "mvp5":
		return 4
	case "mvp6-0", "mvp6-1", "mvp6-2", "mvp6-3":
		return 6
	}
	return 7
}

func variantIndex(v string) int {
	for i, n := range variantNames {
		if n == v {
			return i
		}
	}
	return -1
}

func newVM(c config, mem int) vm {
	switch c.V {
	case "mvp1":
		return mvp1.NewCPU(false, mem)
	case "mvp2":
		return mvp2.NewCPU(false, mem)
	case "mvp3":
		return mvp3.NewCPU(false, mem)
	case "mvp4":
		return mvp4.NewCPU(false, mem)
	case "mvp5":
		return mvp5.NewCPU(false, mem)
	case "mvp6-0":
		return mvp6_0.NewCPU(false, mem, c.EU, c.WU)
	case "mvp6-1":
		return mvp6_1.NewCPU(false, mem, c.EU, c.WU)
	case "mvp6-2":
		return mvp6_2.NewCPU(false, mem, c.EU, c.WU)
	case "mvp6-3":
		return mvp6_3.NewCPU(false, mem, c.EU, c.WU)
	case "mvp7-0":
		return mvp7_0.NewCPU(false, mem, c.EU)
	case "mvp7-1":
		return mvp7_1.NewCPU(false, mem, c.EU)
	case "mvp8-0":
		return mvp8_0.NewCPU(false, mem, c.EU)
	}
	panic("unknown variant " + c.V)
}

// allConfigs enumerates the 81 configurations of the quantifier.
func allConfigs() []config {
	var cs []config
	for _, v := range variantNames {
		switch variantClass(v) {
		case 6:
			for e := 1; e <= 4; e++ {
				for w := 1; w <= 4; w++ {
					cs = append(cs, config{V: v, EU: e, WU: w})
				}
			}
		case 7:
			for e := 1; e <= 4; e++ {
				cs = append(cs, config{V: v, EU: e})
			}
		default:
			cs = append(cs, config{V: v})
		}
	}
	return cs
}

func configsOf(v string) []config {
	var cs []config
	for _, c := range allConfigs() {
		if c.V == v {
			cs = append(cs, c)
		}
	}
	return cs
}

// observation of one machine run
type observation struct {
	Verdict string // "ok" (returned nil), "err" (returned error), "panic", "budget"
	Err     string
	Panic   string
	Frame   string // top repository frame of a panic
	Site    int    // tick site that exhausted the budget
	Cycles  int
	Regs    [32]int32
	Mem     []int8
	Log     []risc.VerifRec
	Ticks   int64
	Sites   [risc.VerifSites]int64
	Dropped int64
}

type runOpts struct {
	Budget int64
	Log    bool
	MaxLog int
	OnTick func(m vm, site, cycle int)
}

// panicFrame extracts the innermost frame inside the repository from the
// current goroutine's stack (called from a deferred recover).
func panicFrame() string {
	pcs := make([]uintptr, 64)
	n := runtime.Callers(3, pcs)
	frames := runtime.CallersFrames(pcs[:n])
	for {
		f, more := frames.Next()
		if strings.Contains(f.Function, "teivah/majorana") {
			fn := f.Function
			if i := strings.Index(fn, "teivah/majorana/"); i >= 0 {
				fn = fn[i+len("teivah/majorana/"):]
			}
			file := f.File
			if i := strings.Index(file, "/repo/"); i >= 0 {
				file = file[i+len("/repo/"):]
			}
			return fmt.Sprintf("%s (%s:%d)", fn, file, f.Line)
		}
		if !more {
			break
		}
	}
	return "?"
}

// runMachine parses src with the repository parser and runs it on c.
func runMachine(c config, src string, regs [32]int32, mem []int8, o runOpts) (obs observation) {
	app, err := risc.Parse(src)
	if err != nil {
		obs.Verdict = "parse"
		obs.Err = err.Error()
		return
	}
	return runMachineApp(c, app, regs, mem, o)
}

func runMachineApp(c config, app risc.Application, regs [32]int32, mem []int8, o runOpts) (obs observation) {
	m := newVM(c, len(mem))
	ctx := m.Context()
	for i, x := range regs {
		if x != 0 && i != 0 {
			ctx.Registers[risc.RegisterType(i)] = x
		}
	}
	copy(ctx.Memory, mem)
	vs := ctx.Verif()
	vs.Budget = o.Budget
	vs.LogOn = o.Log
	vs.MaxLog = o.MaxLog
	if o.OnTick != nil {
		vs.OnTick = func(site, cycle int) { o.OnTick(m, site, cycle) }
	}
	finish := func() {
		for i := 0; i < 32; i++ {
			obs.Regs[i] = ctx.Registers[risc.RegisterType(i)]
		}
		obs.Mem = ctx.Memory
		obs.Log = vs.Log
		obs.Ticks = vs.Ticks
		obs.Sites = vs.Sites
		obs.Dropped = vs.Dropped
	}
	func() {
		defer func() {
			if e := recover(); e != nil {
				if be, ok := e.(risc.VerifBudgetExceeded); ok {
					obs.Verdict = "budget"
					obs.Site = be.Site
				} else {
					obs.Verdict = "panic"
					obs.Panic = fmt.Sprint(e)
					obs.Frame = panicFrame()
					if os.Getenv("VERIF_STACK") != "" {
						fmt.Fprintf(os.Stderr, "panic: %v\n%s\n", e, debug.Stack())
					}
				}
			}
		}()
		cyc, err := m.Run(app)
		obs.Cycles = cyc
		if err != nil {
			obs.Verdict = "err"
			obs.Err = err.Error()
		} else {
			obs.Verdict = "ok"
		}
	}()
	finish()
	return
}
