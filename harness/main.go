package main

import (
	"encoding/json"
	"flag"
	"fmt"
	"github.com/teivah/majorana/proc/comp"
	"math/rand"
	"os"
	"path/filepath"
	"sort"
	"strings"
)

func caseRand(seed int64, family string, idx int) *rand.Rand {
	h := int64(1469598103934665603)
	for _, b := range []byte(family) {
		h ^= int64(b)
		h *= 1099511628211
	}
	return rand.New(rand.NewSource(seed*1000003 + h + int64(idx)*7919))
}

func main() {
	if len(os.Args) < 2 {
		fmt.Println("usage: vcheck <probe|worker|Cxx> ...")
		os.Exit(2)
	}
	switch os.Args[1] {
	case "probe":
		probeMain(os.Args[2:])
	case "worker":
		workerMain(os.Args[2:])
	default:
		if f, ok := extraCmds[os.Args[1]]; ok {
			f(os.Args[2:])
			return
		}
		if _, ok := registry[os.Args[1]]; ok {
			checkMain(os.Args[1], os.Args[2:])
			return
		}
		fmt.Println("unknown command")
		os.Exit(2)
	}
}

func probeMain(args []string) {
	fs := flag.NewFlagSet("probe", flag.ExitOnError)
	seed := fs.Int64("seed", 1, "")
	n := fs.Int("n", 100, "")
	size := fs.Int("size", 25, "")
	fam := fs.String("fam", "", "family: shadow|regdep|memwalk|tails|memdep|hot|stress (default: generic)")
	idxMod := fs.Int("idxmod", -1, "with -fam: only case indexes with idx%4 == idxmod")
	only := fs.String("only", "", "")
	par := fs.String("par", "2", "parallelism list for 6.x+ (eu=wu)")
	wuPar := fs.Int("wupar", 0, "if > 0: number of write units (6.x), independent of -par")
	mem := fs.Bool("mem", true, "")
	br := fs.Bool("branch", true, "")
	jumps := fs.Bool("jumps", true, "")
	loops := fs.Bool("loops", true, "")
	show := fs.Int("show", 1, "")
	memsize := fs.Int("memsize", 2048, "")
	ndata := fs.Int("ndata", 5, "")
	doMin := fs.Bool("min", false, "")
	classF := fs.String("class", "", "only show findings whose key contains this")
	trigTab := fs.Bool("trig", false, "")
	dense := fs.Bool("dense", false, "")
	dump := fs.String("dump", "", "")
	fs.Parse(args)
	var dumpF *os.File
	if *dump != "" {
		dumpF, _ = os.Create(*dump)
		defer dumpF.Close()
	}
	tabAll, tabBad := map[string]int{}, map[string]int{}
	_ = dense
	var cfgs []config
	for _, v := range variantNames {
		if *only != "" && !strings.Contains(","+*only+",", ","+v+",") {
			continue
		}
		if variantClass(v) >= 6 {
			for _, ps := range strings.Split(*par, ",") {
				var x int
				fmt.Sscan(ps, &x)
				w := x
				if *wuPar > 0 {
					w = *wuPar
				}
				cfgs = append(cfgs, config{V: v, EU: x, WU: w})
			}
		} else {
			cfgs = append(cfgs, config{V: v})
		}
	}
	hist := map[string]int{}
	shown := map[string]int{}
	stats := map[string]int64{}
	disc := 0
	for i := 0; i < *n; i++ {
		r := caseRand(*seed, "probe", i)
		var in caseInput
		if *idxMod >= 0 && i%4 != *idxMod {
			continue
		}
		switch *fam {
		case "shadow":
			in = famShadow(r, i)
		case "regdep":
			in = famRegdep(r, i)
		case "memwalk":
			in = famMemwalk(r, i)
		case "tails":
			in = famTails(r, i)
		case "memdep":
			in = famMemdep(r, i)
		case "hot":
			in = famHot(r, i)
		case "stress":
			in = famStressTerm(r, i)
		default:
			in = genProgram(r, genCfg{N: *size, Mem: *mem, Branch: *br, Jumps: *jumps, Loops: *loops, Ret: true, EndLabel: true, MemSize: *memsize, NData: *ndata, NAddr: 3, DivRem: true, SubWord: true, UseRa: true})
		}
		out := diffCase(in, cfgs, diffOpts{Prop: "probe", Lockstep: true})
		if out.Discarded {
			disc++
			continue
		}
		for k, v := range out.Stats {
			stats[k] += v
		}
		bad := map[string]bool{}
		var rel []string
		for _, t := range out.Triggers {
			switch t {
			case "waw", "war", "line-reuse-with-store", "shadow-store", "shadow-load", "shadow-div", "mem-near-exit", "mem-before-taken":
				rel = append(rel, t)
			}
		}
		trig := strings.Join(rel, ",")
		if *trigTab {
			for _, c := range cfgs {
				tabAll[c.V+" ["+trig+"]"]++
			}
		}
		for _, f := range out.Findings {
			k := f.Config.String() + " " + f.Class + " " + subClass(f.Sub) + " " + f.Site
			hist[k]++
			if *trigTab && !bad[f.Config.String()] {
				tabBad[f.Config.V+" ["+trig+"]"]++
			}
			bad[f.Config.String()] = true
			if shown[k] < *show && (*classF == "" || strings.Contains(k, *classF)) {
				shown[k]++
				src := in.Src
				if *doMin {
					mi := minimize(in, f.Config, f.key(), diffOpts{Prop: "probe", Lockstep: true})
					src = mi.Src
					o2 := diffCase(mi, []config{f.Config}, diffOpts{Prop: "probe", Lockstep: true})
					for _, g := range o2.Findings {
						if g.key() == f.key() {
							f = g
						}
					}
				}
				fmt.Printf("---- case %d %s: %s %s\n%s\nfinal: %s\nregs: %v\n%s\n", i, f.Config, f.Class, f.Sub, f.Detail, f.Extra, in.Regs, src)
			}
		}
		if *dump != "" {
			fm := map[string]string{}
			for _, f := range out.Findings {
				if _, ok := fm[f.Config.String()]; !ok {
					fm[f.Config.String()] = f.Class + "/" + subClass(f.Sub) + "/" + f.Site
				}
			}
			b, _ := json.Marshal(map[string]any{"i": i, "trig": out.Triggers, "fail": fm, "steps": out.RefSteps})
			fmt.Fprintln(dumpF, string(b))
		}
		for _, c := range cfgs {
			if !bad[c.String()] {
				hist[c.String()+" ok"]++
			}
		}
	}
	fmt.Println("discarded", disc)
	if *trigTab {
		tk := make([]string, 0)
		for k := range tabAll {
			tk = append(tk, k)
		}
		sort.Strings(tk)
		for _, k := range tk {
			fmt.Printf("TRIG %4d/%4d %s\n", tabBad[k], tabAll[k], k)
		}
	}
	ks := make([]string, 0, len(hist))
	for k := range hist {
		ks = append(ks, k)
	}
	sort.Strings(ks)
	for _, k := range ks {
		fmt.Printf("%5d %s\n", hist[k], k)
	}
	for _, k := range sortedKeys(stats) {
		if !strings.Contains(k, ":") {
			fmt.Printf("  %s=%d", k, stats[k])
		}
	}
	fmt.Println()
}

func init() { extraCmds["one"] = oneMain }

var extraCmds = map[string]func([]string){}

// oneMain: run a program given on stdin on one configuration and print findings.
func oneMain(args []string) {
	fs := flag.NewFlagSet("one", flag.ExitOnError)
	v := fs.String("v", "mvp6-1", "")
	eu := fs.Int("eu", 2, "")
	wu := fs.Int("wu", 2, "")
	regs := fs.String("regs", "", "name=value,...")
	memsize := fs.Int("memsize", 1024, "")
	reps := fs.Int("reps", 1, "")
	zeroMem := fs.Bool("zeromem", false, "")
	save := fs.String("save", "", "write a witness file for the first finding")
	kfid := fs.String("id", "", "")
	fam := fs.String("family", "", "")
	expErr := fs.Bool("experr", false, "")
	dumpSnap := fs.Bool("dump", false, "print the last MSI snapshot")
	traceLine := fs.Int("trace", -1, "with -dump: print every change of the MSI state of this L1 line base, cycle by cycle")
	from := fs.String("from", "", "take input and configuration from a replay file")
	srcOverride := fs.String("src", "", "with -from: replace the program text by this file")
	fs.Parse(args)
	var b []byte
	if *from == "" {
		b, _ = os.ReadFile("/dev/stdin")
	}
	in := caseInput{Src: string(b), Mem: make([]int8, *memsize)}
	for i := range in.Mem {
		in.Mem[i] = int8(i*7 + 1)
		if *zeroMem {
			in.Mem[i] = 0
		}
	}
	for _, kv := range strings.Split(*regs, ",") {
		if kv == "" {
			continue
		}
		p := strings.Split(kv, "=")
		var x int32
		fmt.Sscan(p[1], &x)
		in.Regs[regIdx(p[0])] = x
	}
	if *from != "" {
		rb, err := os.ReadFile(*from)
		if err != nil {
			fmt.Println(err)
			return
		}
		var rf finding
		if json.Unmarshal(rb, &rf) == nil && rf.Input != nil {
			in = *rf.Input
			*v, *eu, *wu = rf.Config.V, rf.Config.EU, rf.Config.WU
			if *srcOverride != "" {
				sb, _ := os.ReadFile(*srcOverride)
				in.Src = string(sb)
			}
		}
	}
	if *dumpSnap {
		var last comp.VerifMSISnap
		var lastCycle int
		o := runMachine(config{V: *v, EU: *eu, WU: *wu}, in.Src, in.Regs, in.Mem, runOpts{Budget: 200000, OnTick: func(m vm, site, cycle int) {
			if sn, ok := m.(snapper); ok && (site == 0 || *traceLine >= 0) {
				prev := last
				last = sn.VerifSnapshot()
				lastCycle = cycle
				if *traceLine >= 0 {
					desc := func(s *comp.VerifMSISnap) string {
						var sb strings.Builder
						for i, c := range s.Cores {
							has := false
							for _, l := range c.L1 {
								if l.Base == int32(*traceLine) {
									has = true
								}
							}
							fmt.Fprintf(&sb, "c%d[st=%d l1=%v r=%v w=%v sn=%v rl=%v wl=%v] ", i, c.States[int32(*traceLine)], has, c.ReadBusy, c.WriteBusy, c.SnoopBusy, c.RLocks, c.Locks)
						}
						fmt.Fprintf(&sb, "sems=%v cmds=%v", s.Sems, s.Commands)
						return sb.String()
					}
					if d := desc(&last); prev.Cores == nil || d != desc(&prev) {
						fmt.Printf("cycle %d site %d: %s\n", cycle, site, d)
					}
				}
			}
		}})
		fmt.Println("verdict", o.Verdict, o.Panic, "cycle", lastCycle)
		for i, c := range last.Cores {
			fmt.Printf("core %d: states=%v l1=%d lines readBusy=%v writeBusy=%v snoopBusy=%v rlocks=%v locks=%v\n", i, c.States, len(c.L1), c.ReadBusy, c.WriteBusy, c.SnoopBusy, c.RLocks, c.Locks)
		}
		fmt.Println("sems", last.Sems, "commands", last.Commands)
		return
	}
	for r := 0; r < *reps; r++ {
		out := diffCase(in, []config{{V: *v, EU: *eu, WU: *wu}}, diffOpts{Prop: "one", Lockstep: !*expErr, ExpectErr: *expErr})
		if *save != "" && len(out.Findings) > 0 {
			f := out.Findings[0]
			w := witnessFile{ID: *kfid, Config: f.Config, Input: in, Class: f.Class, Sub: subClass(f.Sub), Site: f.Site, Detail: f.Detail, Family: *fam}
			wb, _ := json.MarshalIndent(w, "", " ")
			os.WriteFile(*save, wb, 0o644)
			fmt.Println("witness written:", *save, "triggers", f.Trig)
		}
		if out.Discarded {
			fmt.Println("discarded:", out.RefErr)
			return
		}
		if len(out.Findings) == 0 {
			fmt.Println("ok; triggers", out.Triggers)
		}
		for _, f := range out.Findings {
			fmt.Printf("%s %s %s %s: %s | final: %s | triggers %v\n", f.Config, f.Class, f.Sub, f.Site, f.Detail, f.Extra, f.Trig)
		}
	}
}

func init() { extraCmds["min"] = minMain }

// minMain: minimise the program of a replay file, keeping (variant, class, sub-class, site).
func minMain(args []string) {
	b, err := os.ReadFile(args[0])
	if err != nil {
		fmt.Println(err)
		return
	}
	var f finding
	if err := json.Unmarshal(b, &f); err != nil || f.Input == nil {
		fmt.Println("not a replay file")
		return
	}
	o := diffOpts{Prop: f.Prop, Lockstep: true}
	if f.Class == "error-not-reported" {
		o = diffOpts{Prop: f.Prop, ExpectErr: true}
	}
	mi := minimize(*f.Input, f.Config, f.key(), o)
	out := diffCase(mi, []config{f.Config}, o)
	fmt.Printf("config %s\nregs %v\n%s", f.Config, nonzeroRegs(mi.Regs), mi.Src)
	for _, g := range out.Findings {
		fmt.Printf("=> %s %s %s: %s | %s\n", g.Class, g.Sub, g.Site, g.Detail, g.Extra)
	}
}

func init() { extraCmds["mkwitness"] = mkWitnessMain }

// mkWitnessMain: vcheck mkwitness <replay.json> <KF-id> [minimize]
func mkWitnessMain(args []string) {
	b, err := os.ReadFile(args[0])
	if err != nil {
		fmt.Println(err)
		return
	}
	var f finding
	if err := json.Unmarshal(b, &f); err != nil || f.Input == nil {
		fmt.Println("not a replay file")
		return
	}
	in := *f.Input
	if len(args) > 2 && args[2] == "min" {
		o := diffOpts{Prop: f.Prop, Lockstep: true}
		if f.Class == "error-not-reported" {
			o = diffOpts{Prop: f.Prop, ExpectErr: true}
		} else if f.Class == "budget" || f.Class == "panic" {
			o = diffOpts{Prop: f.Prop}
		}
		in = minimize(in, f.Config, f.key(), o)
	}
	w := witnessFile{ID: args[1], Prop: f.Prop, Config: f.Config, Input: in, Class: f.Class, Sub: subClass(f.Sub), Site: f.Site, Detail: f.Detail, Family: f.Family}
	wb, _ := json.MarshalIndent(w, "", " ")
	path := filepath.Join(verifDir, "findings", args[1]+".json")
	os.WriteFile(path, wb, 0o644)
	fmt.Printf("%s: %s %s %s %s triggers=%v\n%s", path, f.Config, f.Class, subClass(f.Sub), f.Site, f.Trig, in.Src)
}

func init() { extraCmds["log"] = logMain }

// logMain: print the event log of a replay file's case (kinds: 1 exec 2 decode 3 flush 4 regwb 5 store 6 dispatch).
func logMain(args []string) {
	b, _ := os.ReadFile(args[0])
	var f finding
	if json.Unmarshal(b, &f) != nil || f.Input == nil {
		fmt.Println("not a replay file")
		return
	}
	in := *f.Input
	if len(args) > 1 {
		sb, _ := os.ReadFile(args[1])
		in.Src = string(sb)
	}
	p := refParse(in.Src)
	ref := refRun(p, in.Regs, in.Mem, 20000, true)
	o := runMachine(f.Config, in.Src, in.Regs, in.Mem, runOpts{Budget: budgetFor(ref.Steps, len(p.Ins)), Log: true})
	names := map[int]string{1: "exec", 2: "decode", 3: "flush", 4: "regwb", 5: "store", 6: "dispatch"}
	for _, r := range o.Log {
		txt := ""
		pc := r.Pc
		if r.Kind == 2 {
			pc = r.A
		}
		if r.Kind == 1 || r.Kind == 2 {
			if int(pc/4) < len(p.Ins) {
				txt = p.Ins[pc/4].Text
			}
		}
		fmt.Printf("cycle %5d %-8s seq=%-5d a=%-6d b=%-6d %s %v\n", r.Cycle, names[r.Kind], r.Seq, r.A, r.B, txt, r.Mem)
	}
	fmt.Println(o.Verdict, o.Cycles)
}

func init() { extraCmds["attr"] = attrMain }

// attrMain: developer aid. For each replay file: re-run its input on its configuration with the options of the
// given property and say which known finding (if any) every observed finding would be attributed to.
// usage: vcheck attr <Cxx> <replay.json>...
func attrMain(args []string) {
	if len(args) < 2 {
		fmt.Println("usage: attr <Cxx> <replay.json>...")
		return
	}
	dp, ok := registry[args[0]].(*diffProp)
	if !ok {
		fmt.Println("not a differential property:", args[0])
		return
	}
	kf := loadKnownFindings()
	for _, path := range args[1:] {
		b, err := os.ReadFile(path)
		if err != nil {
			fmt.Println(err)
			continue
		}
		var f finding
		if json.Unmarshal(b, &f) != nil || f.Input == nil {
			fmt.Println(path, ": not a replay file")
			continue
		}
		o := dp.optsForFamily(f.Family)
		o.Prop = dp.id
		out := diffCase(*f.Input, []config{f.Config}, o)
		if len(out.Findings) == 0 {
			fmt.Printf("%s: no divergence now\n", filepath.Base(path))
		}
		for _, g := range out.Findings {
			g.Prop = dp.id
			m := "UNATTRIBUTED"
			for _, e := range kf.Entries {
				if e.matches(g) {
					m = e.ID
					break
				}
			}
			fmt.Printf("%s: %s %s %s %s -> %s\n", filepath.Base(path), g.Config, g.Class, subClass(g.Sub), g.Site, m)
		}
	}
}
