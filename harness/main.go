package main

import (
	"flag"
	"fmt"
	"math/rand"
	"os"
	"sort"
	"strings"
)

func caseRand(seed int64, family string, idx int) *rand.Rand {
	h := int64(1469598103934665603)
	for _, b := range []byte(family) {
		h ^= int64(b)
		h *= 1099511628211
	}
	return rand.New(rand.NewSource(seed*1000003 + h + int64(idx)*7919))
}

func main() {
	if len(os.Args) < 2 {
		fmt.Println("usage: vcheck <probe|worker|Cxx> ...")
		os.Exit(2)
	}
	switch os.Args[1] {
	case "probe":
		probeMain(os.Args[2:])
	case "worker":
		workerMain(os.Args[2:])
	default:
		if _, ok := registry[os.Args[1]]; ok {
			checkMain(os.Args[1], os.Args[2:])
			return
		}
		fmt.Println("unknown command")
		os.Exit(2)
	}
}

func probeMain(args []string) {
	fs := flag.NewFlagSet("probe", flag.ExitOnError)
	seed := fs.Int64("seed", 1, "")
	n := fs.Int("n", 100, "")
	size := fs.Int("size", 25, "")
	only := fs.String("only", "", "")
	par := fs.String("par", "2", "parallelism list for 6.x+ (eu=wu)")
	mem := fs.Bool("mem", true, "")
	br := fs.Bool("branch", true, "")
	jumps := fs.Bool("jumps", true, "")
	loops := fs.Bool("loops", true, "")
	show := fs.Int("show", 1, "")
	memsize := fs.Int("memsize", 2048, "")
	ndata := fs.Int("ndata", 5, "")
	doMin := fs.Bool("min", false, "")
	classF := fs.String("class", "", "only show findings whose key contains this")
	fs.Parse(args)
	var cfgs []config
	for _, v := range variantNames {
		if *only != "" && !strings.Contains(","+*only+",", ","+v+",") {
			continue
		}
		if variantClass(v) >= 6 {
			for _, ps := range strings.Split(*par, ",") {
				var x int
				fmt.Sscan(ps, &x)
				cfgs = append(cfgs, config{V: v, EU: x, WU: x})
			}
		} else {
			cfgs = append(cfgs, config{V: v})
		}
	}
	hist := map[string]int{}
	shown := map[string]int{}
	stats := map[string]int64{}
	disc := 0
	for i := 0; i < *n; i++ {
		r := caseRand(*seed, "probe", i)
		in := genProgram(r, genCfg{N: *size, Mem: *mem, Branch: *br, Jumps: *jumps, Loops: *loops, Ret: true, EndLabel: true, MemSize: *memsize, NData: *ndata, NAddr: 3, DivRem: true, SubWord: true, UseRa: true})
		out := diffCase(in, cfgs, diffOpts{Prop: "probe", Lockstep: true})
		if out.Discarded {
			disc++
			continue
		}
		for k, v := range out.Stats {
			stats[k] += v
		}
		bad := map[string]bool{}
		for _, f := range out.Findings {
			k := f.Config.String() + " " + f.Class + " " + subClass(f.Sub) + " " + f.Site
			hist[k]++
			bad[f.Config.String()] = true
			if shown[k] < *show && (*classF == "" || strings.Contains(k, *classF)) {
				shown[k]++
				src := in.Src
				if *doMin {
					mi := minimize(in, f.Config, f.key(), diffOpts{Prop: "probe", Lockstep: true})
					src = mi.Src
					o2 := diffCase(mi, []config{f.Config}, diffOpts{Prop: "probe", Lockstep: true})
					for _, g := range o2.Findings {
						if g.key() == f.key() {
							f = g
						}
					}
				}
				fmt.Printf("---- case %d %s: %s %s\n%s\nfinal: %s\nregs: %v\n%s\n", i, f.Config, f.Class, f.Sub, f.Detail, f.Extra, in.Regs, src)
			}
		}
		for _, c := range cfgs {
			if !bad[c.String()] {
				hist[c.String()+" ok"]++
			}
		}
	}
	fmt.Println("discarded", disc)
	ks := make([]string, 0, len(hist))
	for k := range hist {
		ks = append(ks, k)
	}
	sort.Strings(ks)
	for _, k := range ks {
		fmt.Printf("%5d %s\n", hist[k], k)
	}
	for _, k := range sortedKeys(stats) {
		if !strings.Contains(k, ":") {
			fmt.Printf("  %s=%d", k, stats[k])
		}
	}
	fmt.Println()
}
