package main

import "strings"

// minimize greedily deletes lines while the case keeps producing a finding
// with the same key (variant, class, sub-class, site) on configuration c.
func minimize(in caseInput, c config, key string, o diffOpts) caseInput {
	lines := strings.Split(strings.TrimRight(in.Src, "\n"), "\n")
	fails := func(ls []string) bool {
		cand := caseInput{Src: strings.Join(ls, "\n") + "\n", Regs: in.Regs, Mem: in.Mem}
		out := diffCase(cand, []config{c}, o)
		if out.Discarded {
			return false
		}
		for _, f := range out.Findings {
			if f.key() == key {
				return true
			}
		}
		return false
	}
	// nondeterministic failures: require the failure in 2 of 2 tries to keep a deletion
	changed := true
	rounds := 0
	for changed && rounds < 6 {
		changed = false
		rounds++
		for i := 0; i < len(lines); i++ {
			cand := append(append([]string{}, lines[:i]...), lines[i+1:]...)
			if fails(cand) {
				lines = cand
				changed = true
				i--
			}
		}
	}
	return caseInput{Src: strings.Join(lines, "\n") + "\n", Regs: in.Regs, Mem: in.Mem}
}
