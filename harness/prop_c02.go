package main

// C02: each instruction has RV32IM semantics on all operand values.
// Single-instruction oracle: the repository's InstructionRunner is driven the
// way MVP-1 drives it and compared with the table in ref.go (evalIns).

import (
	"fmt"
	"math/rand"
	"sort"
	"strings"

	"github.com/teivah/majorana/risc"
)

var c02Mnemonics = []string{"add", "addi", "and", "andi", "auipc", "beq", "beqz", "bge", "bgeu", "ble", "blt", "bltu", "bne", "bnez", "div", "j", "jal", "jalr", "lui", "lb", "lh", "li", "lw", "nop", "mul", "mv", "or", "ori", "rem", "ret", "sb", "sh", "sll", "slli", "slt", "sltu", "slti", "sra", "srai", "srl", "srli", "sub", "sw", "xor", "xori"}

var c02Lattice = []int32{0, 1, -1, 2, -2, 31, 32, 33, 63, 0x7f, 0x80, 0xff, 0x100, 0x7fff, 0x8000, 0xffff, 0x10000, -2147483648, -2147483647, 2147483647, 0x55555555, -0x55555556, 0x7fffff00, -256, -32768, 1 << 30}

var c02Imms = []int32{0, 1, -1, 2, 4, 5, 31, 32, 33, 63, -32, 255, -256, 2047, -2048, 1000}

type c02Pattern struct {
	Name       string
	Rd, R1, R2 string
}

var c02Patterns = []c02Pattern{
	{"distinct", "t0", "t1", "t2"},
	{"rd=rs1", "t0", "t0", "t2"},
	{"rd=rs2", "t0", "t1", "t0"},
	{"rs1=rs2", "t0", "t1", "t1"},
	{"all-equal", "t0", "t0", "t0"},
	{"rd=zero", "zero", "t1", "t2"},
	{"rs1=zero", "t0", "zero", "t2"},
	{"rs2=zero", "t0", "t1", "zero"},
	{"other-regs", "a5", "s11", "ra"},
}

func valClass(v int32) string {
	switch {
	case v == 0:
		return "0"
	case v == 1:
		return "1"
	case v == -1:
		return "-1"
	case v == -2147483648:
		return "min"
	case v == 2147483647:
		return "max"
	case v > 0 && v < 64:
		return "small+"
	case v < 0 && v > -64:
		return "small-"
	case v < 0:
		return "neg"
	default:
		return "pos"
	}
}

const c02Mem = 256

// c02Text builds the instruction text for a mnemonic, pattern and immediate.
func c02Text(m string, p c02Pattern, imm int32) string {
	switch m {
	case "add", "sub", "and", "or", "xor", "sll", "srl", "sra", "slt", "sltu", "mul", "div", "rem":
		return fmt.Sprintf("%s %s, %s, %s", m, p.Rd, p.R1, p.R2)
	case "addi", "andi", "ori", "xori", "slli", "srli", "srai", "slti", "jalr":
		return fmt.Sprintf("%s %s, %s, %d", m, p.Rd, p.R1, imm)
	case "lui", "auipc", "li":
		return fmt.Sprintf("%s %s, %d", m, p.Rd, imm)
	case "beq", "bne", "blt", "bge", "ble", "bltu", "bgeu":
		return fmt.Sprintf("%s %s, %s, TGT", m, p.R1, p.R2)
	case "beqz", "bnez":
		return fmt.Sprintf("%s %s, TGT", m, p.R1)
	case "j":
		return "j TGT"
	case "jal":
		return fmt.Sprintf("jal %s, TGT", p.Rd)
	case "lb", "lh", "lw":
		return fmt.Sprintf("%s %s, %d(%s)", m, p.Rd, imm, p.R1)
	case "sb", "sw":
		return fmt.Sprintf("%s %s, %d(%s)", m, p.R2, imm, p.R1)
	case "sh":
		return fmt.Sprintf("sh %s, %d, %s", p.R2, imm, p.R1)
	case "mv":
		return fmt.Sprintf("mv %s, %s", p.Rd, p.R1)
	case "nop", "ret":
		return m
	}
	panic(m)
}

type c02Eval struct {
	M    string
	Pat  c02Pattern
	A, B int32 // values of rs1 / rs2 (for memory ops A is turned into an in-bounds base)
	Imm  int32
	Nops int // instructions before the one under test (varies pc)
}

// c02Run evaluates one triple and returns "" or a description of the mismatch.
func c02Run(ev c02Eval) (msg string) {
	defer func() {
		if e := recover(); e != nil {
			msg = fmt.Sprintf("panic: %v at %s", e, panicFrame())
		}
	}()
	m := ev.M
	imm := ev.Imm
	a, b := ev.A, ev.B
	sz := accessSize(m)
	if sz != 0 {
		// in-bounds, naturally aligned access: offset from the immediate lattice, base derived from A
		imm = imm % 64
		imm -= imm % sz
		base := int32(64) + (a&0x7c)%64
		base -= base % 4
		a = base
		if ev.Pat.R1 == "zero" {
			a = 0
			if imm < 0 {
				imm = -imm
			}
		}
	}
	if m == "jalr" {
		imm &^= 3
		a &^= 3
	}
	text := c02Text(m, ev.Pat, imm)
	src := "TGT:\n" + strings.Repeat("nop\n", ev.Nops) + text + "\n"
	pc := int32(4 * ev.Nops)
	app, err := risc.Parse(src)
	if err != nil {
		return "parse error: " + err.Error()
	}
	if len(app.Instructions) != ev.Nops+1 {
		return fmt.Sprintf("parsed %d instructions, expected %d", len(app.Instructions), ev.Nops+1)
	}
	run := app.Instructions[ev.Nops]
	rp := refParse(src)
	in := rp.Ins[ev.Nops]
	// context
	ctx := risc.NewContext(false, c02Mem, false)
	regs := [32]int32{}
	for i := 1; i < 32; i++ {
		regs[i] = int32(0x01010101 * i) // every register distinct and non-zero
	}
	set := func(name string, v int32) {
		if name != "zero" {
			regs[regIdx(name)] = v
		}
	}
	// later assignments win when registers alias, exactly as a register file would
	set(ev.Pat.R2, b)
	set(ev.Pat.R1, a)
	if ev.Pat.R1 == ev.Pat.R2 {
		b = a
	}
	if ev.Pat.R1 == "zero" {
		a = 0
	}
	if ev.Pat.R2 == "zero" {
		b = 0
	}
	for i := 1; i < 32; i++ {
		ctx.Registers[risc.RegisterType(i)] = regs[i]
	}
	for i := range ctx.Memory {
		ctx.Memory[i] = int8(i*7 + 3)
	}
	var loaded []int8
	if isLoad(m) {
		addr := a + imm
		// memory content from operand B
		ctx.Memory[addr] = int8(ev.B)
		if sz >= 2 {
			ctx.Memory[addr+1] = int8(ev.B >> 8)
		}
		if sz == 4 {
			ctx.Memory[addr+2] = int8(ev.B >> 16)
			ctx.Memory[addr+3] = int8(ev.B >> 24)
		}
		loaded = append([]int8(nil), ctx.Memory[addr:addr+sz]...)
	}
	// snapshot
	regSnap := map[risc.RegisterType]int32{}
	for k, v := range ctx.Registers {
		regSnap[k] = v
	}
	memSnap := append([]int8(nil), ctx.Memory...)

	want := evalIns(in, pc, a, b, loaded, rp.Labels)

	// drive like MVP-1
	addrs := run.MemoryRead(ctx, 0)
	var memory []int8
	if isLoad(m) {
		if len(addrs) != int(sz) {
			return fmt.Sprintf("MemoryRead returned %d addresses, expected %d", len(addrs), sz)
		}
		for i, ad := range addrs {
			if ad != want.Addr+int32(i) {
				return fmt.Sprintf("MemoryRead address %d = %d, expected %d", i, ad, want.Addr+int32(i))
			}
			memory = append(memory, ctx.Memory[ad])
		}
	} else if len(addrs) != 0 {
		return fmt.Sprintf("MemoryRead returned %v for a non-load", addrs)
	}
	waddrs := run.MemoryWrite(ctx, 0)
	if isStore(m) {
		if len(waddrs) != int(sz) {
			return fmt.Sprintf("MemoryWrite returned %d addresses, expected %d", len(waddrs), sz)
		}
		for i, ad := range waddrs {
			if ad != want.Addr+int32(i) {
				return fmt.Sprintf("MemoryWrite address %d = %d, expected %d", i, ad, want.Addr+int32(i))
			}
		}
	} else if len(waddrs) != 0 {
		return fmt.Sprintf("MemoryWrite returned %v for a non-store", waddrs)
	}
	exe, err := run.Run(ctx, app.Labels, pc, memory, 0)
	// Run must not touch the context
	if len(ctx.Registers) != len(regSnap) {
		return "Run changed the set of registers in the Context"
	}
	for k, v := range regSnap {
		if ctx.Registers[k] != v {
			return fmt.Sprintf("Run wrote register %v directly into the Context (%d -> %d)", k, v, ctx.Registers[k])
		}
	}
	for i := range memSnap {
		if ctx.Memory[i] != memSnap[i] {
			return fmt.Sprintf("Run wrote memory[%d] directly", i)
		}
	}
	if want.Err != "" {
		if err == nil {
			return fmt.Sprintf("expected an error value (%s), Run returned none", want.Err)
		}
		return ""
	}
	if err != nil {
		return "unexpected error: " + err.Error()
	}
	wantE := effectOfRef(in, want)
	gotE := effectOfExec(exe)
	if !effectEqual(wantE, gotE) {
		return fmt.Sprintf("effect: RV32IM says %s, Run returned %s", wantE, gotE)
	}
	// zero register: a write to zero is suppressed
	if in.dstReg() == 0 && exe.RegisterChange && (exe.Register != risc.Zero || exe.RegisterValue != 0) {
		return fmt.Sprintf("write to zero not suppressed: register %v value %d", exe.Register, exe.RegisterValue)
	}
	// declared sets
	wantRead := map[int]bool{}
	for _, r := range in.srcRegs() {
		wantRead[r] = true
	}
	gotRead := map[int]bool{}
	for _, r := range run.ReadRegisters() {
		if r != risc.Zero {
			gotRead[int(r)] = true
		}
	}
	wantWrite := map[int]bool{}
	if d := in.dstReg(); d != 0 {
		wantWrite[d] = true
	}
	gotWrite := map[int]bool{}
	for _, r := range run.WriteRegisters() {
		if r != risc.Zero {
			gotWrite[int(r)] = true
		}
	}
	if !sameSet(wantRead, gotRead) {
		return fmt.Sprintf("ReadRegisters = %s, the instruction reads %s", setStr(gotRead), setStr(wantRead))
	}
	if !sameSet(wantWrite, gotWrite) {
		return fmt.Sprintf("WriteRegisters = %s, the instruction writes %s", setStr(gotWrite), setStr(wantWrite))
	}
	if exe.RegisterChange && exe.Register != risc.Zero && !gotWrite[int(exe.Register)] {
		return fmt.Sprintf("Execution.Register %v is not in WriteRegisters", exe.Register)
	}
	// perturbation: the result must not depend on an undeclared register
	for i := 1; i < 32; i++ {
		if gotRead[i] {
			continue
		}
		ctx.Registers[risc.RegisterType(i)] ^= 0x5a5a5a5a
	}
	exe2, err2 := run.Run(ctx, app.Labels, pc, memory, 0)
	if err2 != nil || !effectEqual(effectOfExec(exe2), gotE) {
		return "result depends on a register that is not in ReadRegisters"
	}
	return ""
}

func sameSet(a, b map[int]bool) bool {
	if len(a) != len(b) {
		return false
	}
	for k := range a {
		if !b[k] {
			return false
		}
	}
	return true
}

func setStr(m map[int]bool) string {
	var ks []string
	for k := range m {
		ks = append(ks, regNames[k])
	}
	sort.Strings(ks)
	return "{" + strings.Join(ks, ",") + "}"
}

type propC02 struct{}

func (propC02) ID() string { return "C02" }
func (propC02) parts(tier string) int {
	if tier == "thorough" {
		return 1 + 100
	}
	return 1 + 2
}
func (p propC02) NumCases(tier string) int { return len(c02Mnemonics) * p.parts(tier) }
func (propC02) Rule() string {
	return "for each of the 45 mnemonics: part 0 = all 9 register patterns (distinct, rd==rs1, rd==rs2, rs1==rs2, all equal, zero as rd/rs1/rs2, other registers) x all ordered pairs of a 26-value boundary lattice x a 16-value immediate lattice (exhaustive over the lattice, instruction placed at pc 0, 4 and 20); further parts = seeded uniformly random (pattern, a, b, imm) tuples (2 parts of 2200 per mnemonic quick, 100 parts thorough). Each evaluation drives MemoryRead -> Run as MVP-1 does and compares destination value, stored bytes, branch decision/target and link value with the RV32IM table, checks error values for div/rem by zero, that Run leaves the Context untouched, the declared read/write sets, and independence from undeclared registers. distinct_nontrivial = distinct (mnemonic, register pattern, class of a, class of b) cells visited, classes being {0,1,-1,min,max,small+,small-,neg,pos}."
}
func (propC02) Assumptions() []string {
	return []string{"the RV32IM table (harness/ref.go evalIns) is written from the ISA manual; pseudo-instructions li, mv, ble, beqz, bnez, j, ret, nop have their usual expansions; jalr targets are kept 4-aligned; memory operands are kept naturally aligned and in bounds"}
}
func (propC02) MinEvents(string) []string { return []string{"evaluations"} }
func (propC02) Exhaustive(string) bool    { return false }

func (p propC02) RunCase(tier string, seed int64, idx int) caseResult {
	m := c02Mnemonics[idx%len(c02Mnemonics)]
	part := idx / len(c02Mnemonics)
	res := caseResult{Stats: map[string]int64{}}
	cells := map[string]bool{}
	do := func(ev c02Eval) {
		res.Runs++
		res.Stats["evaluations"]++
		res.Stats["eval:"+m]++
		cells[m+"|"+ev.Pat.Name+"|"+valClass(ev.A)+"|"+valClass(ev.B)] = true
		if msg := c02Run(ev); msg != "" {
			if len(res.Findings) < 4 {
				res.Findings = append(res.Findings, finding{Class: "isa-mismatch", Site: m, Detail: fmt.Sprintf("%s [%s] a=%d b=%d imm=%d pc=%d: %s", m, ev.Pat.Name, ev.A, ev.B, ev.Imm, 4*ev.Nops, msg), Extra: fmt.Sprintf("%s %d %d %d %d %d", m, patIndex(ev.Pat), ev.A, ev.B, ev.Imm, ev.Nops), Step: -1})
			}
		}
	}
	if part == 0 {
		for _, pat := range c02Patterns {
			for _, a := range c02Lattice {
				for _, b := range c02Lattice {
					for ii, imm := range c02Imms {
						if !c02UsesImm(m) && ii > 0 {
							break
						}
						do(c02Eval{M: m, Pat: pat, A: a, B: b, Imm: imm, Nops: []int{0, 1, 5}[(ii+len(cells))%3]})
					}
				}
			}
		}
		if idx < 1 {
			res.Sample = map[string]any{"mnemonic": m, "pattern": c02Patterns[1], "a": -2147483648, "b": -1, "imm": 33, "text": c02Text(m, c02Patterns[1], 33)}
		}
	} else {
		r := caseRand(seed, "C02/"+m, part)
		n := 2200
		for i := 0; i < n; i++ {
			ev := c02Eval{M: m, Pat: c02Patterns[r.Intn(len(c02Patterns))], A: randOperand(r), B: randOperand(r), Imm: randImm(r), Nops: r.Intn(8)}
			do(ev)
		}
	}
	for c := range cells {
		res.Cells = append(res.Cells, c)
	}
	sort.Strings(res.Cells)
	return res
}

func c02UsesImm(m string) bool {
	switch m {
	case "addi", "andi", "ori", "xori", "slli", "srli", "srai", "slti", "jalr", "lui", "auipc", "li", "lb", "lh", "lw", "sb", "sh", "sw":
		return true
	}
	return false
}

func patIndex(p c02Pattern) int {
	for i, q := range c02Patterns {
		if q.Name == p.Name {
			return i
		}
	}
	return 0
}

func randOperand(r *rand.Rand) int32 {
	if r.Intn(3) == 0 {
		return c02Lattice[r.Intn(len(c02Lattice))]
	}
	return int32(r.Uint32())
}

func randImm(r *rand.Rand) int32 {
	switch r.Intn(4) {
	case 0:
		return c02Imms[r.Intn(len(c02Imms))]
	case 1:
		return int32(r.Intn(4096)) - 2048
	case 2:
		return int32(r.Intn(1 << 20))
	default:
		return int32(r.Uint32())
	}
}

func (propC02) Replay(f finding) (bool, string) {
	var m string
	var pi, nops int
	var a, b, imm int32
	if _, err := fmt.Sscan(f.Extra, &m, &pi, &a, &b, &imm, &nops); err != nil {
		return false, "cannot parse replay: " + err.Error()
	}
	msg := c02Run(c02Eval{M: m, Pat: c02Patterns[pi], A: a, B: b, Imm: imm, Nops: nops})
	if msg != "" {
		return true, fmt.Sprintf("%s [%s] a=%d b=%d imm=%d: %s", m, c02Patterns[pi].Name, a, b, imm, msg)
	}
	return false, "evaluation agrees with the RV32IM table"
}

func init() { register(propC02{}) }
