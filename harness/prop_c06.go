package main

// C06: MSI coherence invariants hold at every cycle on MVP-7.0, 7.1 and 8.

import (
	"fmt"
	"math/rand"
	"sort"
	"strings"

	"github.com/teivah/majorana/proc/comp"
	mvp7_0 "github.com/teivah/majorana/proc/mvp7-0"
	mvp7_1 "github.com/teivah/majorana/proc/mvp7-1"
	mvp8_0 "github.com/teivah/majorana/proc/mvp8-0"
)

const (
	msiInvalid  = 0
	msiShared   = 1
	msiModified = 2
)

// msiCheck evaluates invariants I1-I5 on one snapshot; returns "" or (invariant id, description).
func msiCheck(s *comp.VerifMSISnap) (string, string) {
	// I5 lock counters
	for a, c := range s.Sems {
		if c[0] < 0 || c[1] < 0 {
			return "I5", fmt.Sprintf("line %d lock counters read=%d write=%d", a, c[0], c[1])
		}
		if c[1] > 1 || (c[1] > 0 && c[0] > 0) {
			return "I5", fmt.Sprintf("line %d held by %d writers and %d readers", a, c[1], c[0])
		}
	}
	// I1 single owner
	lines := map[int32]bool{}
	for _, c := range s.Cores {
		for a := range c.States {
			lines[a] = true
		}
	}
	for a := range lines {
		mod, sh := 0, 0
		for _, c := range s.Cores {
			switch c.States[a] {
			case msiModified:
				mod++
			case msiShared:
				sh++
			}
		}
		if mod > 1 || (mod == 1 && sh > 0) {
			return "I1", fmt.Sprintf("line %d: %d cores Modified, %d cores Shared", a, mod, sh)
		}
	}
	cmd := map[[2]int32]bool{}
	for _, c := range s.Commands {
		cmd[[2]int32{c[0], c[1]}] = true
	}
	for ci, c := range s.Cores {
		inTransfer := map[int32]bool{}
		for _, a := range c.RLocks {
			inTransfer[a] = true
		}
		for _, a := range c.Locks {
			inTransfer[a] = true
		}
		resident := map[int32]bool{}
		// I4 structure
		for i, l := range c.L1 {
			if int(l.Base)%s.L1LineSize != 0 || len(l.Data) != s.L1LineSize {
				return "I4", fmt.Sprintf("core %d L1 line base %d length %d is not %d-aligned/sized", ci, l.Base, len(l.Data), s.L1LineSize)
			}
			for j := 0; j < i; j++ {
				if c.L1[j].Base == l.Base {
					return "I4", fmt.Sprintf("core %d holds line %d twice", ci, l.Base)
				}
			}
			resident[l.Base] = true
		}
		// I3 residency <=> state != invalid, outside a transfer
		all := map[int32]bool{}
		for a := range c.States {
			all[a] = true
		}
		for a := range resident {
			all[a] = true
		}
		for a := range all {
			if inTransfer[a] || cmd[[2]int32{int32(ci), a}] {
				continue
			}
			if resident[a] != (c.States[a] != msiInvalid) {
				return "I3", fmt.Sprintf("core %d line %d: resident in L1 = %v, protocol state = %d, no lock held and no command outstanding", ci, a, resident[a], c.States[a])
			}
		}
		// I2 shared copies equal the next level
		for _, l := range c.L1 {
			if c.States[l.Base] != msiShared || inTransfer[l.Base] {
				continue
			}
			next := nextLevel(s, l.Base, s.L1LineSize)
			for k := range l.Data {
				if next[k] != l.Data[k] {
					return "I2", fmt.Sprintf("core %d Shared line %d byte %d = %d, next level holds %d", ci, l.Base, k, l.Data[k], next[k])
				}
			}
		}
	}
	if s.HasL3 {
		for i, l := range s.L3 {
			if int(l.Base)%s.L3LineSize != 0 || len(l.Data) != s.L3LineSize {
				return "I4", fmt.Sprintf("L3 line base %d length %d is not %d-aligned/sized", l.Base, len(l.Data), s.L3LineSize)
			}
			for j := 0; j < i; j++ {
				if s.L3[j].Base == l.Base {
					return "I4", fmt.Sprintf("L3 holds line %d twice", l.Base)
				}
			}
		}
	}
	return "", ""
}

func nextLevel(s *comp.VerifMSISnap, base int32, n int) []int8 {
	if s.HasL3 {
		for _, l := range s.L3 {
			if base >= l.Base && base < l.Base+int32(len(l.Data)) {
				off := int(base - l.Base)
				return l.Data[off : off+n]
			}
		}
	}
	out := make([]int8, n)
	for i := 0; i < n; i++ {
		if int(base)+i < len(s.Mem) {
			out[i] = s.Mem[int(base)+i]
		}
	}
	return out
}

// ---------- rig ----------

type rigAPI interface {
	Busy(core int) bool
	IssueRead(core int, addrs []int32)
	IssueWrite(core int, addrs []int32, data []int8)
	Flush(core int)
	Quiescent() bool
	Snapshot() comp.VerifMSISnap
	Export()
	Memory() []int8
}

type rig70 struct{ *mvp7_0.VerifRig }
type rig71 struct{ *mvp7_1.VerifRig }
type rig80 struct{ *mvp8_0.VerifRig }

type rigDone struct {
	Core  int
	Write bool
	Addrs []int32
	Data  []int8
}

func (r rig70) Memory() []int8 { return r.Context().Memory }
func (r rig71) Memory() []int8 { return r.Context().Memory }
func (r rig80) Memory() []int8 { return r.Context().Memory }
func (r rig70) StepD() []rigDone {
	var out []rigDone
	for _, d := range r.Step() {
		out = append(out, rigDone{d.Core, d.Write, d.Addrs, d.Data})
	}
	return out
}
func (r rig71) StepD() []rigDone {
	var out []rigDone
	for _, d := range r.Step() {
		out = append(out, rigDone{d.Core, d.Write, d.Addrs, d.Data})
	}
	return out
}
func (r rig80) StepD() []rigDone {
	var out []rigDone
	for _, d := range r.Step() {
		out = append(out, rigDone{d.Core, d.Write, d.Addrs, d.Data})
	}
	return out
}

type rigStepper interface {
	rigAPI
	StepD() []rigDone
}

func newRig(v string, cores, mem int) rigStepper {
	switch v {
	case "mvp7-0":
		return rig70{mvp7_0.NewVerifRig(cores, mem)}
	case "mvp7-1":
		return rig71{mvp7_1.NewVerifRig(cores, mem)}
	}
	return rig80{mvp8_0.NewVerifRig(cores, mem)}
}

// rigReq is one scripted request.
type rigReq struct {
	Core  int
	Kind  byte // r, w, f (flush the core)
	Line  int  // 0 or 1 -> address 128 + 64*Line (+ word offset)
	Word  int
	Delay int // steps before issuing: 0,1,2,5 or -1 = wait for quiescence
}

func (q rigReq) String() string {
	d := fmt.Sprint(q.Delay)
	if q.Delay < 0 {
		d = "quiet"
	}
	return fmt.Sprintf("%c%d(L%d.%d)+%s", q.Kind, q.Core, q.Line, q.Word, d)
}

type rigOutcome struct {
	Violation string
	Inv       string
	Stuck     bool
	Steps     int
	Snapshots int
	Reads     int
	Writes    int
	Flushed   int
}

// runRig executes a scripted sequence on a fresh rig of variant v.
func runRig(v string, cores int, seq []rigReq) (out rigOutcome) {
	defer func() {
		if e := recover(); e != nil {
			msg := fmt.Sprint(e)
			out.Inv = "panic"
			if strings.Contains(msg, "negative") {
				out.Inv = "I5"
			}
			out.Violation = fmt.Sprintf("panic: %s at %s", msg, panicFrame())
		}
	}()
	const mem = 1024
	rg := newRig(v, cores, mem)
	m := rg.Memory()
	for i := range m {
		m[i] = int8(i)
	}
	shadow := append([]int8(nil), m...) // value of the last completed write per byte
	nextVal := int8(1)
	check := func() bool {
		s := rg.Snapshot()
		out.Snapshots++
		if inv, msg := msiCheck(&s); inv != "" {
			out.Inv, out.Violation = inv, fmt.Sprintf("step %d: %s", out.Steps, msg)
			return false
		}
		return true
	}
	step := func() bool {
		out.Steps++
		for _, d := range rg.StepD() {
			if d.Write {
				out.Writes++
				for i, a := range d.Addrs {
					shadow[a] = d.Data[i]
				}
			} else {
				out.Reads++
				for i, a := range d.Addrs {
					if d.Data[i] != shadow[a] {
						out.Inv = "read-value"
						out.Violation = fmt.Sprintf("step %d: core %d read byte %d = %d, the last completed write left %d", out.Steps, d.Core, a, d.Data[i], shadow[a])
						return false
					}
				}
			}
		}
		return check()
	}
	quiesce := func(limit int) bool {
		for k := 0; k < limit; k++ {
			if rg.Quiescent() {
				return true
			}
			if !step() {
				return false
			}
		}
		if !rg.Quiescent() {
			out.Stuck = true
		}
		return true
	}
	for _, q := range seq {
		if q.Delay < 0 {
			if !quiesce(4000) || out.Stuck {
				return
			}
		} else {
			for k := 0; k < q.Delay; k++ {
				if !step() {
					return
				}
			}
		}
		// one outstanding request per core: wait for the core to be free
		for k := 0; q.Kind != 'f' && rg.Busy(q.Core); k++ {
			if k > 4000 {
				out.Stuck = true
				return
			}
			if !step() {
				return
			}
		}
		base := int32(128 + 64*q.Line + 4*q.Word)
		addrs := []int32{base, base + 1, base + 2, base + 3}
		switch q.Kind {
		case 'r':
			rg.IssueRead(q.Core, addrs)
		case 'w':
			nextVal += 3
			rg.IssueWrite(q.Core, addrs, []int8{nextVal, nextVal + 1, nextVal + 2, nextVal + 3})
		case 'f':
			if rg.Busy(q.Core) {
				out.Flushed++
			}
			rg.Flush(q.Core)
			if !check() {
				return
			}
		}
	}
	if !quiesce(6000) || out.Stuck {
		return
	}
	rg.Export()
	final := rg.Memory()
	for a := range shadow {
		if final[a] != shadow[a] {
			out.Inv = "final-memory"
			out.Violation = fmt.Sprintf("after export: memory[%d] = %d, the last completed write left %d", a, final[a], shadow[a])
			return
		}
	}
	return
}

// ---------- property ----------

type propC06 struct{}

func (propC06) ID() string { return "C06" }

var c06Variants = []string{"mvp7-0", "mvp7-1", "mvp8-0"}

func c06Alphabet(v string, cores int, withFlush bool) []rigReq {
	var a []rigReq
	for c := 0; c < cores; c++ {
		for _, k := range []byte{'r', 'w'} {
			for l := 0; l < 2; l++ {
				for _, d := range []int{0, 1, -1} {
					a = append(a, rigReq{Core: c, Kind: k, Line: l, Word: l, Delay: d})
				}
			}
		}
		if withFlush {
			// early, and inside the window between the line fill and the state update
			ds := []int{2, 311, 313}
			if v == "mvp8-0" {
				// MVP-8 fetches through L3: 50 + 309 steps, then holds the L3 line lock for 50 more
				ds = append(ds, 380)
			}
			for _, d := range ds {
				a = append(a, rigReq{Core: c, Kind: 'f', Delay: d})
			}
		}
	}
	return a
}

// rigDepth: sequences of up to this many requests.
func (propC06) rigDepth(tier string, cores int) int {
	if tier == "thorough" {
		if cores == 2 {
			return 4
		}
		return 3
	}
	if cores == 2 {
		return 3
	}
	return 2
}

// rig shards: variant x cores(2,3) x first request
func (p propC06) rigShards() [][3]int {
	var sh [][3]int
	for vi := range c06Variants {
		for _, cores := range []int{2, 3} {
			n := len(c06Alphabet(c06Variants[vi], cores, true))
			for f := 0; f < n; f++ {
				sh = append(sh, [3]int{vi, cores, f})
			}
		}
	}
	return sh
}

// rigRandom: number of cases with random rig histories (each case runs 40 histories)
func (p propC06) rigRandom(tier string) int {
	if tier == "thorough" {
		return 1500
	}
	return 48
}

func (p propC06) NumCases(tier string) int {
	n := len(p.rigShards()) + p.rigRandom(tier)
	if tier == "thorough" {
		return n + 5000
	}
	return n + 150
}
func (propC06) Rule() string {
	return "(a) full CPUs: programs of families 'hot' (accesses on 1-4 hot lines, branches so that flushes interrupt transfers), 'memdep' and 'memwalk' on MVP-7.0, 7.1 and 8 with 1-4 cores; at every cycle boundary (tick sites of the main loop, the flush drain and the final drain) a snapshot of protocol states, L1/L3 lines, lock counters, outstanding commands and memory is taken and invariants I1 (single Modified owner, no Shared beside it), I2 (Shared copy equals the next level), I3 (resident <=> state != Invalid outside a transfer), I4 (no duplicate and no misaligned L1/L3 lines), I5 (lock counters never negative, writers exclusive) are asserted. (b) the pipeline-less rig: every sequence of up to 3 (2 cores) / 2 (3 cores) requests in the quick tier and 4 / 3 in the thorough tier over {read, write, flush-this-core} on 2 lines with issue offsets {0, 1, after quiescence} (flush after 2, 311, 313 steps, and 380 on MVP-8, i.e. early, inside the window between line fill and state update, and while the L3 line lock is held), stepped to quiescence with the same invariants at every step, every read must return the last completed write, and after export memory must hold the last completed write of every byte. plus seeded random rig histories of 8-24 mostly overlapping requests from 3-4 cores on 2 lines (1920 quick / 60000 thorough). distinct_nontrivial = rig sequences executed + distinct non-trivial programs."
}
func (propC06) Assumptions() []string {
	return []string{"at most the first 60000 cycle boundaries of a run are snapshotted (a run that needs more is a hang, C07)", "'transfer in progress' = the core holds a line lock for that line or a snoop command for (core, line) is outstanding", "rig requests are serialised per core (one outstanding request per core), as one execute unit drives one cache controller", "a rig sequence that does not reach quiescence within 6000 steps is counted as stuck (a termination matter, C07), not as a coherence violation"}
}
func (propC06) MinEvents(string) []string   { return []string{"snapshots", "rig-sequences", "cpu-runs"} }
func (propC06) Exhaustive(tier string) bool { return true }

func encodeRig(seq []rigReq) string {
	var sb strings.Builder
	for _, q := range seq {
		fmt.Fprintf(&sb, "%c:%d:%d:%d:%d ", q.Kind, q.Core, q.Line, q.Word, q.Delay)
	}
	return sb.String()
}

func decodeRig(s string) []rigReq {
	var seq []rigReq
	for _, t := range strings.Fields(s) {
		p := strings.Split(t, ":")
		q := rigReq{Kind: p[0][0]}
		fmt.Sscan(p[1], &q.Core)
		fmt.Sscan(p[2], &q.Line)
		fmt.Sscan(p[3], &q.Word)
		fmt.Sscan(p[4], &q.Delay)
		seq = append(seq, q)
	}
	return seq
}

func (p propC06) RunCase(tier string, seed int64, idx int) caseResult {
	res := caseResult{Stats: map[string]int64{}}
	sh := p.rigShards()
	if idx < len(sh) {
		v := c06Variants[sh[idx][0]]
		cores := sh[idx][1]
		alpha := c06Alphabet(v, cores, true)
		depth := p.rigDepth(tier, cores)
		var rec func(seq []rigReq)
		rec = func(seq []rigReq) {
			o := runRig(v, cores, seq)
			res.Runs++
			res.DistinctN++
			res.Stats["rig-sequences"]++
			res.Stats["snapshots"] += int64(o.Snapshots)
			res.Stats["rig-reads-completed"] += int64(o.Reads)
			res.Stats["rig-writes-completed"] += int64(o.Writes)
			res.Stats["rig-requests-flushed-in-flight"] += int64(o.Flushed)
			if o.Stuck {
				res.Stats["rig-stuck-sequences"]++
			}
			if o.Violation != "" {
				if len(res.Findings) < 3 {
					res.Findings = append(res.Findings, finding{Config: config{V: v, EU: cores}, Class: "msi-invariant", Sub: o.Inv, Site: "rig", Detail: fmt.Sprintf("rig %s %d cores, sequence %v: %s", v, cores, seq, o.Violation), Extra: fmt.Sprintf("R %s %d %s", v, cores, encodeRig(seq)), Step: -1})
				}
				return
			}
			if len(seq) >= depth || o.Stuck {
				return
			}
			for _, q := range alpha {
				rec(append(append([]rigReq{}, seq...), q))
			}
		}
		rec([]rigReq{alpha[sh[idx][2]]})
		if idx == 1 {
			res.Sample = map[string]any{"rig": v, "cores": cores, "first_request": alpha[sh[idx][2]].String(), "example_sequence": "w0(L0.0)+0 r1(L0.0)+1 f0+2 w1(L0.0)+quiet"}
		}
		return res
	}
	if idx < len(sh)+p.rigRandom(tier) {
		// random rig histories: deeper than the exhaustive part (8-24 requests, 3-4 cores, 2 lines)
		ri := idx - len(sh)
		r := caseRand(seed, "C06rig", ri)
		v := c06Variants[ri%len(c06Variants)]
		for h := 0; h < 40; h++ {
			cores := 3 + r.Intn(2)
			var seq []rigReq
			for k := 8 + r.Intn(17); k > 0; k-- {
				// mostly overlapping requests (short delays) on two lines, so that sharers, owners and busy snoops coexist
				q := rigReq{Core: r.Intn(cores), Kind: "rrrwwwf"[r.Intn(7)], Line: r.Intn(2), Delay: []int{0, 0, 0, 1, 2, 5, 20, 311, -1}[r.Intn(9)]}
				q.Word = q.Line
				if q.Kind == 'f' && r.Intn(4) != 0 {
					q.Kind = 'r'
				}
				seq = append(seq, q)
			}
			o := runRig(v, cores, seq)
			res.Runs++
			res.DistinctN++
			res.Stats["rig-sequences"]++
			res.Stats["rig-random-sequences"]++
			res.Stats["snapshots"] += int64(o.Snapshots)
			res.Stats["rig-reads-completed"] += int64(o.Reads)
			res.Stats["rig-writes-completed"] += int64(o.Writes)
			if o.Stuck {
				res.Stats["rig-stuck-sequences"]++
			}
			if o.Violation != "" && len(res.Findings) < 3 {
				res.Findings = append(res.Findings, finding{Config: config{V: v, EU: cores}, Class: "msi-invariant", Sub: o.Inv, Site: "rig", Detail: fmt.Sprintf("rig %s %d cores, sequence %v: %s", v, cores, seq, o.Violation), Extra: fmt.Sprintf("R %s %d %s", v, cores, encodeRig(seq)), Step: -1})
			}
		}
		return res
	}
	// full CPUs
	ci := idx - len(sh) - p.rigRandom(tier)
	r := caseRand(seed, "C06", ci)
	var in caseInput
	fam := "hot"
	switch ci % 5 {
	case 0, 1, 2:
		in = famHot(r, ci)
	case 3:
		in, fam = famMemdep(r, ci), "memdep"
	default:
		in, fam = famMemwalk(r, ci), "memwalk"
	}
	pr := refParse(in.Src)
	ref := refRun(pr, in.Regs, in.Mem, 20000, true)
	if ref.Err != "" || len(pr.Ins) >= 250 {
		res.Discarded = true
		return res
	}
	res.Nontrivial = refNontrivial(pr, ref)
	res.Hash = in.hash()
	res.DistinctN = 0
	if res.Nontrivial {
		res.DistinctN = 1
	}
	budget := budgetFor(ref.Steps, len(pr.Ins))
	var cfgs []config
	for _, v := range c06Variants {
		if tier == "thorough" {
			cfgs = append(cfgs, configsOf(v)...)
		} else {
			cs := configsOf(v)
			cfgs = append(cfgs, cs[1+r.Intn(3)], cs[r.Intn(4)])
		}
	}
	for _, c := range cfgs {
		var inv, msg string
		var cyc int
		snaps := int64(0)
		o := runMachine(c, in.Src, in.Regs, in.Mem, runOpts{Budget: budget, OnTick: func(m vm, site, cycle int) {
			if inv != "" || snaps >= 60000 || (site != 0 && site != 2 && site != 4) {
				return
			}
			sn, ok := m.(snapper)
			if !ok {
				return
			}
			s := sn.VerifSnapshot()
			snaps++
			if i, d := msiCheck(&s); i != "" {
				inv, msg, cyc = i, d, cycle
			}
		}})
		res.Runs++
		res.Stats["cpu-runs"]++
		res.Stats["snapshots"] += snaps
		res.Stats["verdict-"+o.Verdict]++
		cp := in
		if inv != "" {
			res.Findings = append(res.Findings, finding{Config: c, Class: "msi-invariant", Sub: inv, Site: "cpu", Detail: fmt.Sprintf("cycle %d: %s", cyc, msg), Input: &cp, Step: -1, Family: fam, Trig: caseTriggers(pr, ref)})
		} else if o.Verdict == "panic" && strings.Contains(o.Frame, "Sem)") {
			res.Findings = append(res.Findings, finding{Config: c, Class: "msi-invariant", Sub: "I5", Site: "cpu", Detail: "lock counter went negative: " + o.Panic + " at " + o.Frame, Input: &cp, Step: -1, Family: fam, Trig: caseTriggers(pr, ref)})
		}
	}
	if ci == 0 {
		res.Sample = map[string]any{"family": fam, "program": strings.Split(strings.TrimSpace(in.Src), "\n"), "configurations": fmt.Sprint(cfgs)}
	}
	return res
}

func (propC06) Replay(f finding) (bool, string) {
	if strings.HasPrefix(f.Extra, "R ") {
		fs := strings.SplitN(f.Extra, " ", 4)
		var cores int
		fmt.Sscan(fs[2], &cores)
		o := runRig(fs[1], cores, decodeRig(fs[3]))
		return o.Violation != "" && o.Inv == f.Sub, fmt.Sprintf("rig %s: %s %s (stuck=%v)", fs[1], o.Inv, o.Violation, o.Stuck)
	}
	if f.Input == nil {
		return false, "no input"
	}
	in := *f.Input
	pr := refParse(in.Src)
	ref := refRun(pr, in.Regs, in.Mem, 20000, false)
	if ref.Err != "" {
		return false, "reference discards the input"
	}
	budget := budgetFor(ref.Steps, len(pr.Ins))
	for t := 0; t < 12; t++ {
		var inv, msg string
		o := runMachine(f.Config, in.Src, in.Regs, in.Mem, runOpts{Budget: budget, OnTick: func(m vm, site, cycle int) {
			if inv != "" || (site != 0 && site != 2 && site != 4) {
				return
			}
			if sn, ok := m.(snapper); ok {
				s := sn.VerifSnapshot()
				if i, d := msiCheck(&s); i != "" {
					inv, msg = i, fmt.Sprintf("cycle %d: %s", cycle, d)
				}
			}
		}})
		if inv == "" && o.Verdict == "panic" && strings.Contains(o.Frame, "Sem)") {
			inv, msg = "I5", o.Panic
		}
		if inv == f.Sub {
			return true, inv + ": " + msg
		}
	}
	return false, "invariants hold on 12 repetitions"
}

var _ = sort.Strings
var _ = rand.Int

func init() { register(propC06{}) }
