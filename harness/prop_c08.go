package main

// C08: runs are deterministic and isolated.

import (
	"bufio"
	"encoding/json"
	"fmt"
	"math/rand"
	"os"
	"os/exec"
	"path/filepath"
	"regexp"
	"runtime"
	"sort"
	"strings"
	"sync"
	"time"

	"github.com/teivah/majorana/common/ds"
	"github.com/teivah/majorana/proc/comp"
	"github.com/teivah/majorana/risc"
)

type propC08 struct{}

func (propC08) ID() string { return "C08" }
func (propC08) NumCases(tier string) int {
	if tier == "thorough" {
		return 3000
	}
	return 150
}
func (propC08) Rule() string {
	return "per case (families mixed, regdep, memdep, hot in rotation) and per sampled configuration (quick: 1 configuration of every variant; thorough: 2): (a) N fresh machines in sequence with a fresh parse each (N = 8 quick / 30 thorough); (b) one parsed Application reused by a second machine of the same variant and after a run on a different variant; (c) all sampled configurations of the case run concurrently in goroutines on separately parsed programs; (d) the case re-run in two fresh child processes with GOMAXPROCS=1 and GOMAXPROCS=16 and the iterator yield hook active; (e) the worker itself has run unrelated cases before (pollution). All digests of (verdict, error, cycles, 32 registers, memory) must be identical per configuration. After the cases, scenario (c) is repeated in a -race build (10 repetitions quick, 40 thorough) and every data-race report whose racing statements are not the reviewed statistics counters is a violation. Non-trivial/distinct as in C01."
}
func (propC08) Assumptions() []string {
	return []string{"'reusing a parsed program for a second machine' is sequential reuse; concurrent machines use separately parsed programs", "data races on the three package-level statistics counters (comp.Delta, mvp8 l1WriteBackToMemory / l1WriteBackToL3) are reviewed as benign: they never reach registers, memory or the cycle count"}
}
func (propC08) MinEvents(string) []string {
	return []string{"digests-compared", "concurrent-runs", "child-process-runs", "reuse-runs"}
}
func (propC08) Exhaustive(string) bool { return false }

func c08Input(r *rand.Rand, idx int) (caseInput, string) {
	switch idx % 4 {
	case 0:
		return famMixed(r, idx), "mixed"
	case 1:
		return famRegdep(r, idx), "regdep"
	case 2:
		return famMemdep(r, idx), "memdep"
	default:
		return famHot(r, idx), "hot"
	}
}

// c08Configs: one (quick) or two (thorough) configurations per variant.
func c08Configs(r *rand.Rand, tier string) []config {
	var out []config
	for _, v := range variantNames {
		cs := configsOf(v)
		out = append(out, cs[r.Intn(len(cs))])
		if tier == "thorough" && len(cs) > 1 {
			out = append(out, cs[r.Intn(len(cs))])
		}
	}
	return out
}

func installYield(seed int64) {
	var mu sync.Mutex
	rr := rand.New(rand.NewSource(seed))
	f := func() {
		mu.Lock()
		k := rr.Intn(8)
		mu.Unlock()
		switch {
		case k < 4:
			runtime.Gosched()
		case k == 4:
			time.Sleep(time.Microsecond)
		}
	}
	comp.VerifIterYield = f
	ds.VerifIterYield = f
}

type c08ChildReq struct {
	Input   caseInput `json:"input"`
	Configs []config  `json:"configs"`
	Budget  int64     `json:"budget"`
}

// detChildMain: run every configuration once and print the digests (used for scenario d).
func detChildMain(args []string) {
	b, err := os.ReadFile(args[0])
	if err != nil {
		fmt.Println("ERR", err)
		os.Exit(2)
	}
	var req c08ChildReq
	if err := json.Unmarshal(b, &req); err != nil {
		fmt.Println("ERR", err)
		os.Exit(2)
	}
	if os.Getenv("VERIF_YIELD") != "" {
		installYield(7)
	}
	for _, c := range req.Configs {
		o := runMachine(c, req.Input.Src, req.Input.Regs, req.Input.Mem, runOpts{Budget: req.Budget})
		fmt.Printf("DIGEST %s %s\n", c.String(), obsDigest(&o))
	}
}

func (pp propC08) RunCase(tier string, seed int64, idx int) caseResult {
	res := caseResult{Stats: map[string]int64{}}
	r := caseRand(seed, "C08", idx)
	in, fam := c08Input(r, idx)
	p := refParse(in.Src)
	ref := refRun(p, in.Regs, in.Mem, 20000, true)
	if ref.Err != "" || len(p.Ins) >= 250 {
		res.Discarded = true
		return res
	}
	res.Nontrivial = refNontrivial(p, ref)
	res.Hash = in.hash()
	budget := budgetFor(ref.Steps, len(p.Ins))
	cfgs := c08Configs(r, tier)
	nrep := 8
	if tier == "thorough" {
		nrep = 30
	}
	add := func(c config, scenario, detail string) {
		cp := in
		res.Findings = append(res.Findings, finding{Config: c, Class: "nondeterministic", Sub: scenario, Detail: detail, Input: &cp, Step: -1, Family: fam, Trig: caseTriggers(p, ref)})
	}
	solo := map[string]string{}
	describe := func(o *observation) string {
		return fmt.Sprintf("verdict %s err %q cycles %d", o.Verdict, o.Err+o.Panic, o.Cycles)
	}
	// (a) repeated fresh machines
	for _, c := range cfgs {
		var first observation
		for k := 0; k < nrep; k++ {
			o := runMachine(c, in.Src, in.Regs, in.Mem, runOpts{Budget: budget})
			res.Runs++
			res.Stats["digests-compared"]++
			d := obsDigest(&o)
			if k == 0 {
				first = o
				solo[c.String()] = d
			} else if d != solo[c.String()] {
				add(c, "repeat", fmt.Sprintf("repetition %d differs from repetition 0: %s vs %s; %s", k, describe(&o), describe(&first), finalDiffObs(&first, &o)))
				break
			}
		}
	}
	// (b) reuse of a parsed Application: by a second machine of the same variant, and after a run on another variant
	for i, c := range cfgs {
		appA, err := risc.Parse(in.Src)
		if err != nil {
			continue
		}
		_ = runMachineApp(c, appA, in.Regs, in.Mem, runOpts{Budget: budget})
		o2 := runMachineApp(c, appA, in.Regs, in.Mem, runOpts{Budget: budget})
		res.Runs += 2
		res.Stats["reuse-runs"]++
		res.Stats["digests-compared"]++
		if d := obsDigest(&o2); d != solo[c.String()] {
			add(c, "reuse-same-variant", fmt.Sprintf("parsed program reused by a second machine of the same variant: %s, solo digest differs", describe(&o2)))
		}
		appB, _ := risc.Parse(in.Src)
		other := cfgs[(i+5)%len(cfgs)]
		_ = runMachineApp(other, appB, in.Regs, in.Mem, runOpts{Budget: budget})
		o := runMachineApp(c, appB, in.Regs, in.Mem, runOpts{Budget: budget})
		res.Runs += 2
		res.Stats["reuse-runs"]++
		res.Stats["digests-compared"]++
		if d := obsDigest(&o); d != solo[c.String()] {
			add(c, "reuse-after-other-variant", fmt.Sprintf("parsed program reused after a run on %s: %s, solo digest differs", other, describe(&o)))
		}
	}
	// (c) concurrent machines
	{
		var wg sync.WaitGroup
		ds := make([]string, len(cfgs))
		for i, c := range cfgs {
			wg.Add(1)
			go func(i int, c config) {
				defer wg.Done()
				o := runMachine(c, in.Src, in.Regs, in.Mem, runOpts{Budget: budget})
				ds[i] = obsDigest(&o)
			}(i, c)
		}
		wg.Wait()
		for i, c := range cfgs {
			res.Runs++
			res.Stats["concurrent-runs"]++
			res.Stats["digests-compared"]++
			if ds[i] != solo[c.String()] {
				add(c, "concurrent", "run concurrently with other machines in the same process: digest differs from the solo run")
			}
		}
	}
	// (d) fresh child processes
	if idx%2 == 0 || tier == "thorough" {
		req := c08ChildReq{Input: in, Configs: cfgs, Budget: budget}
		b, _ := json.Marshal(req)
		tmp := filepath.Join(verifDir, "work", "C08", fmt.Sprintf("child_%d_%d.json", os.Getpid(), idx))
		os.MkdirAll(filepath.Dir(tmp), 0o755)
		os.WriteFile(tmp, b, 0o644)
		self, _ := os.Executable()
		for _, gmp := range []string{"1", "16"} {
			cmd := exec.Command(self, "detchild", tmp)
			cmd.Env = append(os.Environ(), "GOMAXPROCS="+gmp, "VERIF_YIELD=1")
			out, err := cmd.Output()
			if err != nil {
				res.Stats["child-process-failed"]++
				cp := in
				res.Findings = append(res.Findings, finding{Class: "child-crash", Sub: "GOMAXPROCS=" + gmp, Detail: fmt.Sprintf("child process failed: %v; output %s", err, trunc(string(out), 300)), Input: &cp, Step: -1, Family: fam})
				continue
			}
			got := map[string]string{}
			sc := bufio.NewScanner(strings.NewReader(string(out)))
			for sc.Scan() {
				f := strings.Fields(sc.Text())
				if len(f) == 3 && f[0] == "DIGEST" {
					got[f[1]] = f[2]
				}
			}
			for _, c := range cfgs {
				res.Runs++
				res.Stats["child-process-runs"]++
				res.Stats["digests-compared"]++
				if got[c.String()] != solo[c.String()] {
					add(c, "other-process-gomaxprocs-"+gmp, "fresh process with GOMAXPROCS="+gmp+" and iterator yields: digest differs from the in-process run")
				}
			}
		}
		os.Remove(tmp)
	}
	if idx < 1 {
		res.Sample = map[string]any{"family": fam, "program": strings.Split(strings.TrimSpace(in.Src), "\n"), "configurations": fmt.Sprint(cfgs), "repetitions": nrep}
	}
	return res
}

func finalDiffObs(a, b *observation) string {
	var d []string
	for i := 0; i < 32; i++ {
		if a.Regs[i] != b.Regs[i] {
			d = append(d, fmt.Sprintf("%s %d/%d", regNames[i], a.Regs[i], b.Regs[i]))
		}
	}
	n := 0
	for i := range a.Mem {
		if i < len(b.Mem) && a.Mem[i] != b.Mem[i] {
			n++
		}
	}
	if n > 0 {
		d = append(d, fmt.Sprintf("%d memory bytes", n))
	}
	return strings.Join(d, " ")
}

func (pp propC08) Replay(f finding) (bool, string) {
	if f.Input == nil {
		return false, "no input"
	}
	if f.Class == "data-race" {
		return false, "race reports are replayed by re-running ./check C08"
	}
	in := *f.Input
	p := refParse(in.Src)
	ref := refRun(p, in.Regs, in.Mem, 20000, true)
	if ref.Err != "" {
		return false, "reference discards the input"
	}
	budget := budgetFor(ref.Steps, len(p.Ins))
	seen := map[string]int{}
	for k := 0; k < 40; k++ {
		o := runMachine(f.Config, in.Src, in.Regs, in.Mem, runOpts{Budget: budget})
		seen[obsDigest(&o)]++
	}
	return len(seen) > 1, fmt.Sprintf("40 repetitions on %s gave %d distinct digests: %v", f.Config, len(seen), seen)
}

// ---------------- race detector part ----------------

var raceFrameRe = regexp.MustCompile(`^\s+(\S*/repo/\S+\.go):(\d+)`)

// raceRunMain: scenario (c) repeated, executed by the -race build.
func raceRunMain(args []string) {
	var seed int64 = 1
	reps := 10
	if len(args) > 0 {
		fmt.Sscan(args[0], &seed)
	}
	if len(args) > 1 {
		fmt.Sscan(args[1], &reps)
	}
	installYield(seed)
	runs := 0
	for k := 0; k < reps; k++ {
		r := caseRand(seed, "C08race", k)
		in, _ := c08Input(r, k)
		p := refParse(in.Src)
		ref := refRun(p, in.Regs, in.Mem, 20000, false)
		if ref.Err != "" {
			continue
		}
		budget := budgetFor(ref.Steps, len(p.Ins))
		cfgs := c08Configs(r, "thorough")
		var wg sync.WaitGroup
		for _, c := range cfgs {
			wg.Add(1)
			go func(c config) {
				defer wg.Done()
				_ = runMachine(c, in.Src, in.Regs, in.Mem, runOpts{Budget: budget})
			}(c)
			runs++
		}
		wg.Wait()
	}
	fmt.Println("RACERUNS", runs)
}

type raceReport struct {
	Lines  []string // source statements of the two racing accesses
	Where  []string
	Benign bool
}

var benignRaceStatements = map[string]bool{
	"Delta++":               true,
	"l1WriteBackToMemory++": true,
	"l1WriteBackToL3++":     true,
}

func sourceLine(file string, line int) string {
	b, err := os.ReadFile(file)
	if err != nil {
		return "?"
	}
	ls := strings.Split(string(b), "\n")
	if line-1 < len(ls) && line >= 1 {
		return strings.TrimSpace(ls[line-1])
	}
	return "?"
}

// parseRaceLogs reads race detector logs and returns deduplicated reports.
func parseRaceLogs(glob string) (reports map[string]*raceReport, blocks int) {
	reports = map[string]*raceReport{}
	files, _ := filepath.Glob(glob)
	for _, f := range files {
		b, _ := os.ReadFile(f)
		for _, blk := range strings.Split(string(b), "WARNING: DATA RACE")[1:] {
			blocks++
			// sections: "Write at ... by goroutine" / "Previous read at ... by goroutine": take the first /repo frame of each
			var stmts, where []string
			sections := regexp.MustCompile(`(?m)^(Read|Write|Previous read|Previous write) at `).Split(blk, -1)
			for _, sec := range sections[1:] {
				if i := strings.Index(sec, "Goroutine "); i >= 0 {
					sec = sec[:i]
				}
				for _, ln := range strings.Split(sec, "\n") {
					if m := raceFrameRe.FindStringSubmatch(ln); m != nil {
						var n int
						fmt.Sscan(m[2], &n)
						stmts = append(stmts, sourceLine(m[1], n))
						where = append(where, m[1][strings.Index(m[1], "/repo/")+len("/repo/"):])
						break
					}
				}
			}
			sort.Strings(stmts)
			key := strings.Join(stmts, " <-> ") + " @ " + strings.Join(where, ",")
			if _, ok := reports[key]; !ok {
				ben := len(stmts) > 0
				for _, s := range stmts {
					if !benignRaceStatements[s] {
						ben = false
					}
				}
				reports[key] = &raceReport{Lines: stmts, Where: where, Benign: ben}
			}
		}
	}
	return
}

// c08RacePhase builds the -race binary, runs it and turns its reports into findings.
func c08RacePhase(tier string, seed int64, agg *aggregate) {
	work := filepath.Join(verifDir, "work", "C08")
	os.MkdirAll(work, 0o755)
	bin := filepath.Join(verifDir, "bin", "vcheck.C08.race")
	args := []string{"build", "-race", "-tags", "verif", "-o", bin}
	if r := os.Getenv("VERIF_REPO"); r != "" && r != "/repo" {
		args = append(args, "-modfile="+filepath.Join(verifDir, "bin", "go.alt.mod"))
	}
	build := exec.Command("go", append(args, ".")...)
	build.Dir = filepath.Join(verifDir, "harness")
	build.Env = append(os.Environ(), "GOFLAGS=-mod=mod", "GOPROXY=off", "GOSUMDB=off", "GOTOOLCHAIN=local")
	if out, err := build.CombinedOutput(); err != nil {
		agg.Inconclusive = append(agg.Inconclusive, "race build failed: "+trunc(string(out), 300))
		return
	}
	reps := "10"
	if tier == "thorough" {
		reps = "40"
	}
	logp := filepath.Join(work, "race")
	old, _ := filepath.Glob(logp + "*")
	for _, f := range old {
		os.Remove(f)
	}
	cmd := exec.Command(bin, "racerun", fmt.Sprint(seed), reps)
	cmd.Env = append(os.Environ(), "GORACE=halt_on_error=0 log_path="+logp)
	out, err := cmd.CombinedOutput()
	if !strings.Contains(string(out), "RACERUNS") {
		agg.Inconclusive = append(agg.Inconclusive, fmt.Sprintf("race run did not complete: %v %s", err, trunc(string(out), 300)))
		return
	}
	var runs int64
	for _, l := range strings.Split(string(out), "\n") {
		if strings.HasPrefix(l, "RACERUNS") {
			fmt.Sscan(strings.TrimPrefix(l, "RACERUNS"), &runs)
		}
	}
	reports, blocks := parseRaceLogs(logp + "*")
	agg.Stats["race-detector-runs"] += runs
	agg.Stats["race-report-blocks"] += int64(blocks)
	agg.Runs += runs
	var benign []string
	for k, rp := range reports {
		if rp.Benign {
			benign = append(benign, k)
			agg.Stats["reviewed-benign-race-locations"]++
			continue
		}
		agg.Findings = append(agg.Findings, finding{Prop: "C08", Class: "data-race", Site: strings.Join(rp.Where, ","), Detail: "race detector: " + k, Step: -1})
	}
	sort.Strings(benign)
	if len(benign) > 0 {
		agg.Samples = append(agg.Samples, map[string]any{"reviewed_benign_races": benign})
	}
}

func init() {
	register(propC08{})
	extraCmds["detchild"] = detChildMain
	extraCmds["racerun"] = raceRunMain
}
