package main

// C11: the assembler front end is total and resolves labels correctly.

import (
	"fmt"
	"math/rand"
	"os"
	"path/filepath"
	"regexp"
	"sort"
	"strings"

	"github.com/teivah/majorana/risc"
)

type propC11 struct{}

func (propC11) ID() string { return "C11" }
func (propC11) NumCases(tier string) int {
	if tier == "thorough" {
		return 4000
	}
	return 160
}
func (propC11) Rule() string {
	return "per case 640 (quick) / 2500 (thorough) texts: (a) arbitrary strings (random bytes incl. NUL and invalid UTF-8, random printable lines, very long lines, random token soups from the assembler's own vocabulary); (b) grammar-directed mutations of valid programs (the repository's res/*.asm and generated programs): operand truncated at every byte position, parentheses/commas dropped or doubled, tabs for spaces, trailing comments, duplicate labels, immediates at and beyond the int32 range, mnemonic case flips, blank/comment/indent insertion. Oracle: Parse never panics; for accepted text whose lines classify unambiguously, instruction count = instruction lines and every label = 4 x index of the next instruction (any definition for duplicates); for accepted text in the supported subset every instruction's type, declared register sets and effect under crafted register values equal those of the independently parsed instruction; formatting-only edits leave the parse identical. distinct_nontrivial = distinct texts that Parse accepted and that contain at least one instruction and one label or operand."
}
func (propC11) Assumptions() []string {
	return []string{"structure clauses are asserted only for text Parse accepts; rejecting text is always allowed", "line classification uses only the statement's vocabulary: blank, comment (#), label (no blank, ends with ':'), instruction"}
}
func (propC11) MinEvents(string) []string {
	return []string{"texts", "accepted", "rejected", "probed-instructions"}
}
func (propC11) Exhaustive(string) bool { return false }

var c11Res []string

func c11Resources() []string {
	if c11Res != nil {
		return c11Res
	}
	repo := os.Getenv("VERIF_REPO")
	if repo == "" {
		repo = "/repo"
	}
	files, _ := filepath.Glob(repo + "/res/*.asm")
	sort.Strings(files)
	for _, f := range files {
		b, err := os.ReadFile(f)
		if err == nil {
			c11Res = append(c11Res, string(b))
		}
	}
	if len(c11Res) == 0 {
		c11Res = []string{"li t0, 1\nret\n"}
	}
	return c11Res
}

var labelRe = regexp.MustCompile(`^[A-Za-z0-9_.$]+:$`)
var insRe = regexp.MustCompile(`^[A-Za-z]+( |$)`)

// classify returns (number of instruction lines, labels -> candidate pcs, unambiguous).
func c11Classify(src string) (int, map[string][]int32, bool) {
	n := 0
	labels := map[string][]int32{}
	ok := true
	for _, line := range strings.Split(src, "\n") {
		line = strings.TrimSpace(line)
		switch {
		case line == "" || line[0] == '#':
		case labelRe.MatchString(line):
			l := line[:len(line)-1]
			labels[l] = append(labels[l], int32(4*n))
		case insRe.MatchString(line) && !strings.HasSuffix(line, ":"):
			n++
		default:
			ok = false
			n++
		}
	}
	return n, labels, ok
}

func safeParse(src string) (app risc.Application, err error, pan string) {
	defer func() {
		if e := recover(); e != nil {
			pan = fmt.Sprintf("%v at %s", e, panicFrame())
		}
	}()
	app, err = risc.Parse(src)
	return
}

func renderApp(app risc.Application) string {
	var sb strings.Builder
	for _, in := range app.Instructions {
		fmt.Fprintf(&sb, "%T %+v\n", in, in)
	}
	ks := make([]string, 0, len(app.Labels))
	for k := range app.Labels {
		ks = append(ks, k)
	}
	sort.Strings(ks)
	for _, k := range ks {
		fmt.Fprintf(&sb, "%s=%d\n", k, app.Labels[k])
	}
	return sb.String()
}

// c11Probe compares every parsed instruction with the independently parsed one.
func c11Probe(src string, app risc.Application) (string, int) {
	var rp rProg
	ok := func() (ok bool) {
		defer func() {
			if recover() != nil {
				ok = false
			}
		}()
		rp = refParse(src)
		return true
	}()
	if !ok || len(rp.Ins) != len(app.Instructions) {
		return "", 0
	}
	probed := 0
	for i, in := range rp.Ins {
		run := app.Instructions[i]
		if !strings.EqualFold(run.InstructionType().String(), in.Op) {
			return fmt.Sprintf("instruction %d (%s): decoded as %s", i, in.Text, run.InstructionType()), probed
		}
		msg := func() (msg string) {
			defer func() {
				if e := recover(); e != nil {
					msg = "" // operand values out of the crafted range (e.g. memory index); not a decode question
				}
			}()
			ctx := risc.NewContext(false, 4096, false)
			var regs [32]int32
			for r := 1; r < 32; r++ {
				regs[r] = int32(1024 + 36*r) // distinct, aligned, usable as base addresses
				ctx.Registers[risc.RegisterType(r)] = regs[r]
			}
			for j := range ctx.Memory {
				ctx.Memory[j] = int8(j*13 + 1)
			}
			a, b := regs[in.Rs1], regs[in.Rs2]
			pc := int32(4 * i)
			var loaded, memory []int8
			if isLoad(in.Op) {
				addr := a + in.Imm
				sz := accessSize(in.Op)
				if addr < 0 || int(addr+sz) > len(ctx.Memory) {
					return ""
				}
				loaded = append([]int8(nil), ctx.Memory[addr:addr+sz]...)
				for _, ad := range run.MemoryRead(ctx, 0) {
					if ad < 0 || int(ad) >= len(ctx.Memory) {
						return fmt.Sprintf("instruction %d (%s): MemoryRead address %d", i, in.Text, ad)
					}
					memory = append(memory, ctx.Memory[ad])
				}
			}
			want := evalIns(in, pc, a, b, loaded, rp.Labels)
			exe, err := run.Run(ctx, app.Labels, pc, memory, 0)
			if want.Err != "" || err != nil {
				if (want.Err != "") != (err != nil) {
					return fmt.Sprintf("instruction %d (%s): error mismatch (%v vs %q)", i, in.Text, err, want.Err)
				}
				return ""
			}
			if !effectEqual(effectOfRef(in, want), effectOfExec(exe)) {
				return fmt.Sprintf("instruction %d (%s): operands decoded differently: expected effect %s, got %s", i, in.Text, effectOfRef(in, want), effectOfExec(exe))
			}
			return ""
		}()
		if msg != "" {
			return msg, probed
		}
		probed++
	}
	return "", probed
}

// c11CheckText applies every oracle to one text.
func c11CheckText(src string, stats map[string]int64) (class, msg string) {
	stats["texts"]++
	app, err, pan := safeParse(src)
	if pan != "" {
		return "parse-panic", pan
	}
	if err != nil {
		stats["rejected"]++
		return "", ""
	}
	stats["accepted"]++
	n, labels, unamb := c11Classify(src)
	if unamb {
		stats["structure-checked"]++
		if len(app.Instructions) != n {
			return "instruction-count", fmt.Sprintf("%d instructions parsed, %d instruction lines", len(app.Instructions), n)
		}
		if len(app.Labels) != len(labels) {
			return "label-set", fmt.Sprintf("%d labels parsed, %d label lines' names", len(app.Labels), len(labels))
		}
		for l, pcs := range labels {
			got, ok := app.Labels[l]
			if !ok {
				return "label-set", "label " + l + " missing"
			}
			found := false
			for _, pc := range pcs {
				if pc == got {
					found = true
				}
			}
			if !found {
				return "label-address", fmt.Sprintf("label %s = %d, expected one of %v", l, got, pcs)
			}
		}
		m, probed := c11Probe(src, app)
		stats["probed-instructions"] += int64(probed)
		if m != "" {
			return "operand-decode", m
		}
	}
	return "", ""
}

// formatting-only edit of an accepted program
func c11Reformat(r *rand.Rand, src string) string {
	var out []string
	for _, line := range strings.Split(src, "\n") {
		t := strings.TrimSpace(line)
		if r.Intn(4) == 0 {
			out = append(out, pick(r, []string{"", "   ", "# a comment", "\t", "#", "  # indented comment: x, y(z)"}))
		}
		if t == "" || t[0] == '#' || labelRe.MatchString(t) || !insRe.MatchString(t) || strings.HasSuffix(t, ":") || !strings.Contains(t, " ") && !isBareMnemonic(t) {
			out = append(out, strings.Repeat(" ", r.Intn(5))+t+strings.Repeat(" ", r.Intn(3)))
			continue
		}
		// instruction: flip mnemonic case, indent, keep the rest
		sp := strings.Index(t, " ")
		mn, rest := t, ""
		if sp >= 0 {
			mn, rest = t[:sp], t[sp:]
		}
		switch r.Intn(3) {
		case 0:
			mn = strings.ToUpper(mn)
		case 1:
			b := []byte(mn)
			for i := range b {
				if r.Intn(2) == 0 {
					b[i] = byte(strings.ToUpper(string(b[i]))[0])
				}
			}
			mn = string(b)
		}
		out = append(out, strings.Repeat(" ", r.Intn(6))+mn+rest+strings.Repeat(" ", r.Intn(3)))
	}
	return strings.Join(out, "\n")
}

var c11Vocab = []string{"add", "addi", "lw", "sw", "sh", "beq", "j", "jal", "jalr", "ret", "nop", "li", "t0", "t1", "zero", "$a0", "s11", ",", ", ", "(", ")", "0", "-1", "4", "2147483648", "-2147483649", "99999999999", "L1", "L1:", ":", "#", " ", "\t", "\n", "\n", "x", "0x10", "+5", "(t0)", "4(t1)", "4(", "()", "((", "))", ",,"}

func c11Mutate(r *rand.Rand, src string) string {
	b := []byte(src)
	if len(b) == 0 {
		return src
	}
	switch r.Intn(12) {
	case 0: // truncate at a byte position
		return string(b[:r.Intn(len(b))])
	case 1: // truncate one line at a position
		lines := strings.Split(src, "\n")
		i := r.Intn(len(lines))
		if len(lines[i]) > 0 {
			lines[i] = lines[i][:r.Intn(len(lines[i]))]
		}
		return strings.Join(lines, "\n")
	case 2: // drop a character of a given class
		cs := "(),:# "
		c := cs[r.Intn(len(cs))]
		idx := []int{}
		for i := range b {
			if b[i] == c {
				idx = append(idx, i)
			}
		}
		if len(idx) == 0 {
			return src
		}
		k := idx[r.Intn(len(idx))]
		return string(b[:k]) + string(b[k+1:])
	case 3: // double a character
		k := r.Intn(len(b))
		return string(b[:k]) + string(b[k]) + string(b[k:])
	case 4: // tabs for spaces
		return strings.ReplaceAll(src, " ", "\t")
	case 5: // trailing comments
		lines := strings.Split(src, "\n")
		for i := range lines {
			if r.Intn(2) == 0 {
				lines[i] += pick(r, []string{" # c", "#c", " #", "  # x, y"})
			}
		}
		return strings.Join(lines, "\n")
	case 6: // duplicate a label line somewhere else
		lines := strings.Split(src, "\n")
		var ls []string
		for _, l := range lines {
			if labelRe.MatchString(strings.TrimSpace(l)) {
				ls = append(ls, l)
			}
		}
		if len(ls) == 0 {
			return src + "\nL:\nL:\n"
		}
		k := r.Intn(len(lines) + 1)
		lines = append(lines[:k], append([]string{ls[r.Intn(len(ls))]}, lines[k:]...)...)
		return strings.Join(lines, "\n")
	case 7: // huge immediate
		re := regexp.MustCompile(`-?[0-9]+`)
		locs := re.FindAllStringIndex(src, -1)
		if len(locs) == 0 {
			return src
		}
		l := locs[r.Intn(len(locs))]
		return src[:l[0]] + pick(r, []string{"2147483647", "-2147483648", "2147483648", "-2147483649", "99999999999999999999", "0x7f", "1e3", "+7", "--1", ""}) + src[l[1]:]
	case 8: // replace a token by vocabulary
		k := r.Intn(len(b))
		return string(b[:k]) + pick(r, c11Vocab) + string(b[k:])
	case 9: // delete a random span
		i := r.Intn(len(b))
		j := i + r.Intn(8)
		if j > len(b) {
			j = len(b)
		}
		return string(b[:i]) + string(b[j:])
	case 10: // swap two lines
		lines := strings.Split(src, "\n")
		i, j := r.Intn(len(lines)), r.Intn(len(lines))
		lines[i], lines[j] = lines[j], lines[i]
		return strings.Join(lines, "\n")
	default: // random byte
		k := r.Intn(len(b))
		b[k] = byte(r.Intn(256))
		return string(b)
	}
}

func c11Arbitrary(r *rand.Rand) string {
	switch r.Intn(5) {
	case 0:
		n := r.Intn(200)
		b := make([]byte, n)
		for i := range b {
			b[i] = byte(r.Intn(256))
		}
		return string(b)
	case 1:
		var sb strings.Builder
		for l := r.Intn(6); l >= 0; l-- {
			for i := r.Intn(40); i > 0; i-- {
				sb.WriteByte(byte(32 + r.Intn(95)))
			}
			sb.WriteByte('\n')
		}
		return sb.String()
	case 2:
		return strings.Repeat(pick(r, []string{"a", "add t0, ", "(", "lw t0, 4(", ",", " ", "#"}), 1+r.Intn(3000))
	default:
		var sb strings.Builder
		for i := r.Intn(30); i > 0; i-- {
			sb.WriteString(pick(r, c11Vocab))
			if r.Intn(3) == 0 {
				sb.WriteByte(' ')
			}
		}
		return sb.String()
	}
}

func c11BaseProgram(r *rand.Rand) string {
	if r.Intn(3) == 0 {
		return pick(r, c11Resources())
	}
	in := genProgram(r, genCfg{N: 5 + r.Intn(25), Mem: true, Branch: true, Jumps: true, Loops: true, Ret: true, EndLabel: true, MemSize: 1024, NData: 5, NAddr: 3, DivRem: true, SubWord: true, UseRa: true})
	return in.Src
}

func (p propC11) RunCase(tier string, seed int64, idx int) caseResult {
	res := caseResult{Stats: map[string]int64{}}
	r := caseRand(seed, "C11", idx)
	n := 640
	if tier == "thorough" {
		n = 2500
	}
	seen := map[string]bool{}
	report := func(class, msg, src string) {
		if len(res.Findings) < 3 {
			res.Findings = append(res.Findings, finding{Class: class, Detail: msg + " | text: " + trunc(fmt.Sprintf("%q", src), 400), Extra: src, Step: -1})
		}
	}
	for i := 0; i < n; i++ {
		var src string
		k := r.Intn(10)
		switch {
		case k < 2:
			src = c11Arbitrary(r)
		case k < 3:
			src = c11BaseProgram(r)
		default:
			src = c11BaseProgram(r)
			for m := 1 + r.Intn(3); m > 0; m-- {
				src = c11Mutate(r, src)
			}
		}
		res.Runs++
		before := res.Stats["accepted"]
		class, msg := c11CheckText(src, res.Stats)
		if class != "" {
			report(class, msg, src)
			continue
		}
		if res.Stats["accepted"] > before {
			// accepted: formatting-only invariance
			app1, _, _ := safeParse(src)
			src2 := c11Reformat(r, src)
			app2, err2, pan2 := safeParse(src2)
			res.Stats["invariance-checked"]++
			if pan2 != "" {
				report("parse-panic", pan2, src2)
			} else if err2 != nil {
				report("format-sensitive", "reformatted text is rejected: "+err2.Error(), src2)
			} else if renderApp(app1) != renderApp(app2) {
				report("format-sensitive", "blank lines / comments / indentation / mnemonic case changed the parse: "+firstDiff(renderApp(app1), renderApp(app2)), src2)
			}
			if len(app1.Instructions) > 0 && (len(app1.Labels) > 0 || strings.Contains(src, ",")) && !seen[src] {
				seen[src] = true
				res.DistinctN++
			}
		}
		if idx == 0 && i == 5 {
			res.Sample = map[string]any{"text": trunc(src, 300)}
		}
	}
	return res
}

func (propC11) Replay(f finding) (bool, string) {
	st := map[string]int64{}
	class, msg := c11CheckText(f.Extra, st)
	if class != "" {
		return true, class + ": " + msg
	}
	if f.Class == "format-sensitive" {
		// the recorded text is the reformatted one; compare with a canonical re-render
		return false, "format-sensitive findings are replayed by re-running the check with the same seed"
	}
	return false, "text is handled correctly now"
}

func init() { register(propC11{}) }

func firstDiff(a, b string) string {
	la, lb := strings.Split(a, "\n"), strings.Split(b, "\n")
	for i := 0; i < len(la) && i < len(lb); i++ {
		if la[i] != lb[i] {
			return fmt.Sprintf("%q vs %q", la[i], lb[i])
		}
	}
	return fmt.Sprintf("%d vs %d lines", len(la), len(lb))
}

func isBareMnemonic(t string) bool {
	for _, m := range c02Mnemonics {
		if strings.EqualFold(m, t) {
			return true
		}
	}
	return false
}
