package main

// C12: cycle accounting follows the documented latency model.

import (
	"fmt"
	"math/rand"
	"strings"
)

// latency table, written here from common/latency's documentation (Apple M1 figures), not imported
const (
	c12Mem     = 309
	c12Decode  = 1
	c12RegWB   = 1
	c12LoadExe = 50
)

// mvp1Model: sum over executed instructions of fetch + decode + optional memory read + execute + write-back.
func mvp1Model(p rProg, ref *refState) int {
	c := 0
	for _, t := range ref.Trace {
		in := p.Ins[t.Idx]
		c += c12Mem + c12Decode
		if isLoad(in.Op) {
			c += c12Mem + c12LoadExe
		} else {
			c += 1
		}
		switch {
		case t.Res.Ret:
		case isStore(in.Op):
			c += c12Mem
		case hasDestOperand(in.Op):
			c += c12RegWB
		}
	}
	return c
}

func hasDestOperand(op string) bool {
	switch op {
	case "add", "sub", "and", "or", "xor", "sll", "srl", "sra", "slt", "sltu", "mul", "div", "rem",
		"addi", "andi", "ori", "xori", "slli", "srli", "srai", "slti", "jalr", "lui", "auipc", "li", "jal", "lb", "lh", "lw", "mv":
		return true
	}
	return false
}

func issueWidth(v string) int {
	if variantClass(v) >= 6 {
		return 2
	}
	return 1
}

type propC12 struct{}

func (propC12) ID() string { return "C12" }
func (propC12) NumCases(tier string) int {
	if tier == "thorough" {
		return 20000
	}
	return 500
}
func (propC12) Rule() string {
	return "even cases: a 'mixed' program run on all 12 variants (quick: 2 sampled configurations each): MVP-1's count must equal the analytic model (fetch 309 + decode 1 + memory read 309 for loads + execute 50 for loads / 1 otherwise + write-back 1 register / 309 memory / 0 for branches, nop and ret), MVP-2 <= MVP-1 (every third such case uses misaligned loads and stores and runs on MVP-1/2 only), every count > 0 and >= ceil(executed / issue width) (1 for MVP-1..5, 2 for MVP-6+). odd cases: a program whose branches and addresses depend only on control registers (loop counters, address registers set by li), run twice per configuration with different values in the data registers and data memory; the reference confirms identical path and address trace, then the two counts must be equal. Non-trivial/distinct as in C01."
}
func (propC12) Assumptions() []string {
	return []string{diffAssume, "an instruction with a destination operand pays the register write-back even when the destination is zero", "a run whose architectural result is wrong for a known reason still has its cycle count checked against the bounds"}
}
func (propC12) MinEvents(string) []string {
	return []string{"mvp1-exact-checked", "value-pairs-checked"}
}
func (propC12) Exhaustive(string) bool { return false }

// genValueIndep builds a program whose control flow and addresses do not depend on data registers.
func genValueIndep(r *rand.Rand) (caseInput, caseInput) {
	c := genCfg{MemSize: 2048, NData: 5, NAddr: 3, SubWord: true, LineSize: 64}
	e := newEmitter(r, c)
	regsA, memA := e.initState()
	regsB, memB := regsA, append([]int8(nil), memA...)
	for _, d := range e.dr {
		regsB[regIdx(d)] = boundaryVal(r)
	}
	for i := range memB {
		memB[i] = int8(r.Intn(256))
	}
	dataOp := func() {
		switch r.Intn(8) {
		case 0, 1, 2:
			e.emit("%s %s, %s, %s", pick(r, []string{"add", "sub", "xor", "or", "and", "mul", "slt", "sltu", "sll", "srl", "sra"}), e.reg(), e.reg(), e.reg())
		case 3:
			e.emit("%s %s, %s, %d", pick(r, []string{"addi", "xori", "ori", "andi", "slti"}), e.reg(), e.reg(), e.imm12())
		case 4:
			e.emit("lw %s, %d(%s)", e.reg(), 4*(r.Intn(16)-8), pick(r, e.ar))
		case 5:
			e.emit("sw %s, %d(%s)", e.reg(), 4*(r.Intn(16)-8), pick(r, e.ar))
		case 6:
			e.emit("%s %s, %d(%s)", pick(r, []string{"lb", "lh"}), e.reg(), 2*(r.Intn(16)-8), pick(r, e.ar))
		default:
			e.emit("li %s, %d", pick(r, e.ar), 64+4*r.Intn((c.MemSize-128)/4))
		}
	}
	n := 6 + r.Intn(30)
	for e.count < n {
		if r.Intn(6) == 0 {
			l := e.newLabel()
			e.emit("li s3, %d", 1+r.Intn(4))
			e.label(l)
			for i := 1 + r.Intn(5); i > 0; i-- {
				dataOp()
			}
			e.emit("addi s3, s3, -1")
			e.emit("bnez s3, %s", l)
		} else if r.Intn(8) == 0 {
			// a branch on control registers only
			l := e.newLabel()
			e.emit("li s4, %d", r.Intn(3))
			e.emit("%s s4, %s", pick(r, []string{"beqz", "bnez"}), l)
			dataOp()
			dataOp()
			e.label(l)
		} else {
			dataOp()
		}
	}
	if r.Intn(2) == 0 {
		e.emit("ret")
	}
	src := e.sb.String()
	return caseInput{Src: src, Regs: regsA, Mem: memA}, caseInput{Src: src, Regs: regsB, Mem: memB}
}

func sameShape(p rProg, a, b *refState) bool {
	if len(a.Trace) != len(b.Trace) {
		return false
	}
	for i := range a.Trace {
		x, y := a.Trace[i], b.Trace[i]
		if x.Pc != y.Pc || x.Res.Addr != y.Res.Addr || x.Res.Size != y.Res.Size || x.Res.Taken != y.Res.Taken || x.Res.Next != y.Res.Next {
			return false
		}
	}
	return true
}

func (pp propC12) RunCase(tier string, seed int64, idx int) caseResult {
	res := caseResult{Stats: map[string]int64{}}
	r := caseRand(seed, "C12", idx)
	cfgs := sampleConfigs(r, tier, nil)
	add := func(c config, class, detail string, in caseInput, extra string) {
		cp := in
		res.Findings = append(res.Findings, finding{Config: c, Class: class, Detail: detail, Input: &cp, Step: -1, Extra: extra, Family: "cyc"})
	}
	if idx%2 == 0 {
		in := famMixed(r, idx)
		unaligned := idx%6 == 4
		if unaligned {
			// the unpipelined variants access memory byte by byte: misaligned loads and stores are within
			// what they run, and the latency table charges per instruction, not per word touched
			in = genProgram(r, genCfg{N: 8 + r.Intn(30), Mem: true, Loops: true, Ret: true, MemSize: 1024, NData: 5, NAddr: 3, SubWord: true})
			for _, a := range addrRegs {
				in.Regs[regIdx(a)] += int32(r.Intn(4))
			}
			in.Src = strings.ReplaceAll(in.Src, "li s", "addi s") // keep the misalignment: li sX, v -> addi sX, v is rewritten below
			in.Src = c12Unalign(in.Src, r)
			var keep []config
			for _, c := range cfgs {
				if c.V == "mvp1" || c.V == "mvp2" {
					keep = append(keep, c)
				}
			}
			cfgs = keep
		}
		p := refParse(in.Src)
		ref := refRunU(p, in.Regs, in.Mem, 20000, true, unaligned)
		if ref.Err != "" || len(p.Ins) >= 250 {
			res.Discarded = true
			return res
		}
		res.Nontrivial = refNontrivial(p, ref)
		res.Hash = in.hash()
		budget := budgetFor(ref.Steps, len(p.Ins))
		cyc := map[string]int{}
		for _, c := range cfgs {
			obs := runMachine(c, in.Src, in.Regs, in.Mem, runOpts{Budget: budget})
			res.Runs++
			if obs.Verdict != "ok" {
				res.Stats["runs-not-completed (left to C07)"]++
				continue
			}
			cyc[c.String()] = obs.Cycles
			lower := (ref.Steps + issueWidth(c.V) - 1) / issueWidth(c.V)
			res.Stats["bounds-checked"]++
			if obs.Cycles <= 0 || obs.Cycles < lower {
				add(c, "cycle-lower-bound", fmt.Sprintf("returned %d cycles for %d executed instructions (issue width %d)", obs.Cycles, ref.Steps, issueWidth(c.V)), in, "")
			}
			if c.V == "mvp1" {
				res.Stats["mvp1-exact-checked"]++
				if want := mvp1Model(p, ref); obs.Cycles != want {
					add(c, "mvp1-model", fmt.Sprintf("MVP-1 returned %d cycles, the latency model gives %d for the %d executed instructions", obs.Cycles, want, ref.Steps), in, "")
				}
			}
		}
		if a, ok := cyc["mvp1"]; ok {
			if b, ok2 := cyc["mvp2"]; ok2 {
				res.Stats["mvp2-vs-mvp1-checked"]++
				if b > a {
					add(config{V: "mvp2"}, "mvp2-slower", fmt.Sprintf("MVP-2 needs %d cycles, MVP-1 %d", b, a), in, "")
				}
			}
		}
		if idx == 0 {
			res.Sample = map[string]any{"kind": "model/relational/bounds", "program": strings.Split(strings.TrimSpace(in.Src), "\n"), "mvp1_model_cycles": mvp1Model(p, ref), "executed": ref.Steps}
		}
		return res
	}
	a, b := genValueIndep(r)
	p := refParse(a.Src)
	ra := refRun(p, a.Regs, a.Mem, 20000, true)
	rb := refRun(p, b.Regs, b.Mem, 20000, true)
	if ra.Err != "" || rb.Err != "" || !sameShape(p, ra, rb) {
		res.Discarded = true
		return res
	}
	res.Nontrivial = refNontrivial(p, ra)
	res.Hash = a.hash()
	budget := budgetFor(ra.Steps, len(p.Ins))
	for _, c := range cfgs {
		oa := runMachine(c, a.Src, a.Regs, a.Mem, runOpts{Budget: budget})
		ob := runMachine(c, b.Src, b.Regs, b.Mem, runOpts{Budget: budget})
		res.Runs += 2
		if oa.Verdict != "ok" || ob.Verdict != "ok" {
			res.Stats["runs-not-completed (left to C07)"]++
			continue
		}
		res.Stats["value-pairs-checked"]++
		if oa.Cycles != ob.Cycles {
			// exclude plain nondeterminism (left to C08): the two inputs must give disjoint sets of counts
			ca, cb := map[int]bool{oa.Cycles: true}, map[int]bool{ob.Cycles: true}
			for k := 0; k < 8; k++ {
				x := runMachine(c, a.Src, a.Regs, a.Mem, runOpts{Budget: budget})
				y := runMachine(c, b.Src, b.Regs, b.Mem, runOpts{Budget: budget})
				res.Runs += 2
				ca[x.Cycles], cb[y.Cycles] = true, true
			}
			overlap := false
			for k := range ca {
				if cb[k] {
					overlap = true
				}
			}
			if overlap || len(ca) > 1 || len(cb) > 1 {
				res.Stats["nondeterministic-cycles (left to C08)"]++
				continue
			}
			cp := b
			add(c, "value-dependent-cycles", fmt.Sprintf("same path and addresses, different data values: %d vs %d cycles", oa.Cycles, ob.Cycles), a, "")
			res.Findings[len(res.Findings)-1].Extra = encodeInput(cp)
		}
	}
	if idx == 1 {
		res.Sample = map[string]any{"kind": "value-independence pair", "program": strings.Split(strings.TrimSpace(a.Src), "\n"), "data_registers_run_a": nonzeroRegs(a.Regs), "data_registers_run_b": nonzeroRegs(b.Regs)}
	}
	return res
}

func encodeInput(in caseInput) string {
	b, _ := in.MarshalJSON()
	return string(b)
}

func (pp propC12) Replay(f finding) (bool, string) {
	if f.Input == nil {
		return false, "no input"
	}
	in := *f.Input
	p := refParse(in.Src)
	ref := refRun(p, in.Regs, in.Mem, 20000, true)
	if ref.Err != "" {
		return false, "reference discards the input"
	}
	budget := budgetFor(ref.Steps, len(p.Ins))
	obs := runMachine(f.Config, in.Src, in.Regs, in.Mem, runOpts{Budget: budget})
	switch f.Class {
	case "mvp1-model":
		want := mvp1Model(p, ref)
		return obs.Verdict == "ok" && obs.Cycles != want, fmt.Sprintf("MVP-1 %d cycles, model %d", obs.Cycles, want)
	case "cycle-lower-bound":
		lower := (ref.Steps + issueWidth(f.Config.V) - 1) / issueWidth(f.Config.V)
		return obs.Verdict == "ok" && (obs.Cycles <= 0 || obs.Cycles < lower), fmt.Sprintf("%d cycles, lower bound %d", obs.Cycles, lower)
	case "mvp2-slower":
		o1 := runMachine(config{V: "mvp1"}, in.Src, in.Regs, in.Mem, runOpts{Budget: budget})
		return obs.Cycles > o1.Cycles, fmt.Sprintf("MVP-2 %d, MVP-1 %d", obs.Cycles, o1.Cycles)
	case "value-dependent-cycles":
		var b caseInput
		if err := b.UnmarshalJSON([]byte(f.Extra)); err != nil {
			return false, "second input missing"
		}
		ca, cb := map[int]bool{}, map[int]bool{}
		for k := 0; k < 10; k++ {
			x := runMachine(f.Config, in.Src, in.Regs, in.Mem, runOpts{Budget: budget})
			y := runMachine(f.Config, b.Src, b.Regs, b.Mem, runOpts{Budget: budget})
			ca[x.Cycles], cb[y.Cycles] = true, true
		}
		return len(ca) == 1 && len(cb) == 1 && fmt.Sprint(ca) != fmt.Sprint(cb), fmt.Sprintf("cycle counts %v vs %v", ca, cb)
	}
	return false, "unknown class"
}

func init() { register(propC12{}) }

// c12Unalign rewrites "addi sX, v" (produced from "li sX, v") back into "li sX, v+k" with a random
// misalignment k in 0..3, so that word and half-word accesses through sX are misaligned.
func c12Unalign(src string, r *rand.Rand) string {
	lines := strings.Split(src, "\n")
	for i, l := range lines {
		if strings.HasPrefix(l, "addi s") && strings.Count(l, ",") == 1 {
			var reg string
			var v int
			if _, err := fmt.Sscanf(l, "addi %s %d", &reg, &v); err == nil {
				lines[i] = fmt.Sprintf("li %s %d", reg, v+r.Intn(4))
			}
		}
	}
	return strings.Join(lines, "\n")
}
