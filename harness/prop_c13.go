package main

// C13: the line cache behaves as an LRU cache of its reference model; the
// generic key-value LRU obeys the same recency order.

import (
	"fmt"
	"math/rand"
	"strings"

	gcache "github.com/teivah/majorana/common/cache"
	"github.com/teivah/majorana/proc/comp"
)

// ---- reference model of comp.LRUCache ----

type mLine struct {
	base int32
	data []int8
}

type mCache struct {
	lineLen, cap int
	lines        []mLine // MRU first
}

func (m *mCache) find(addr int32) int {
	for i, l := range m.lines {
		if addr >= l.base && addr < l.base+int32(m.lineLen) {
			return i
		}
	}
	return -1
}
func (m *mCache) touch(i int) {
	l := m.lines[i]
	copy(m.lines[1:i+1], m.lines[:i])
	m.lines[0] = l
}

type c13Op struct {
	Kind string // push, pushw, get, write, evict, getline, getsub
	Line int    // line number (base = Line*lineLen)
	Off  int
	Val  int8
}

func (o c13Op) String() string { return fmt.Sprintf("%s(%d,%d)", o.Kind, o.Line, o.Off) }

// c13Session drives the real cache and the model side by side.
type c13Session struct {
	real    *comp.LRUCache
	m       mCache
	pending int32 // base of a victim reported by pushw and not yet evicted (-1 none)
	seq     int8
	ops     int64
}

func newC13Session(lineLen, nLines int) *c13Session {
	return &c13Session{real: comp.NewLRUCache(lineLen, lineLen*nLines), m: mCache{lineLen: lineLen, cap: nLines}, pending: -1}
}

func (s *c13Session) freshData(line int) []int8 {
	d := make([]int8, s.m.lineLen)
	for i := range d {
		s.seq += 7
		d[i] = s.seq ^ int8(line*31+i)
	}
	return d
}

// valid says whether op respects the callers' protocol in the current state.
func (s *c13Session) valid(o c13Op) bool {
	base := int32(o.Line * s.m.lineLen)
	res := s.m.find(base) >= 0
	switch o.Kind {
	case "push", "pushw":
		return !res && s.pending == -1
	case "write":
		return res
	case "evict":
		return res
	}
	return true
}

// apply runs one op on both and returns a mismatch description or "".
func (s *c13Session) apply(o c13Op) (msg string) {
	defer func() {
		if e := recover(); e != nil {
			msg = fmt.Sprintf("panic in %s: %v", o, e)
		}
	}()
	s.ops++
	ll := s.m.lineLen
	base := int32(o.Line * ll)
	addr := base + int32(o.Off%ll)
	switch o.Kind {
	case "push":
		data := s.freshData(o.Line)
		var want []int8
		if len(s.m.lines) >= s.m.cap {
			want = s.m.lines[len(s.m.lines)-1].data
			s.m.lines = s.m.lines[:len(s.m.lines)-1]
		}
		s.m.lines = append([]mLine{{base, append([]int8(nil), data...)}}, s.m.lines...)
		got := s.real.PushLine(comp.AlignedAddress(base), data)
		if want == nil && len(got) != 0 {
			return fmt.Sprintf("PushLine into a cache with room reported a victim %v", got)
		}
		if want != nil && !eqBytes(got, want) {
			return fmt.Sprintf("PushLine into a full cache reported %v, the least-recently-used line holds %v", got, want)
		}
	case "pushw":
		data := s.freshData(o.Line)
		s.m.lines = append([]mLine{{base, append([]int8(nil), data...)}}, s.m.lines...)
		got := s.real.PushLineWithEvictionWarning(comp.AlignedAddress(base), data)
		if len(s.m.lines) > s.m.cap {
			v := s.m.lines[len(s.m.lines)-1]
			if got == nil {
				return "PushLineWithEvictionWarning over capacity reported no victim"
			}
			if int32(got.Boundary[0]) != v.base || !eqBytes(got.Data, v.data) {
				return fmt.Sprintf("eviction warning names line %d %v, the least-recently-used line is %d %v", got.Boundary[0], got.Data, v.base, v.data)
			}
			s.pending = v.base
		} else if got != nil {
			return "PushLineWithEvictionWarning with room reported a victim"
		}
	case "get":
		i := s.m.find(addr)
		v, ok := s.real.Get(addr)
		if ok != (i >= 0) {
			return fmt.Sprintf("Get(%d) present=%v, a resident line covers it: %v", addr, ok, i >= 0)
		}
		if i >= 0 {
			if v != s.m.lines[i].data[addr-s.m.lines[i].base] {
				return fmt.Sprintf("Get(%d)=%d, last value written is %d", addr, v, s.m.lines[i].data[addr-s.m.lines[i].base])
			}
			s.m.touch(i)
		}
	case "write":
		// callers Get the line first (recency), then Write
		i := s.m.find(addr)
		s.real.Get(addr)
		s.m.touch(i)
		n := 1 + int(o.Val&1)
		if int(addr-base)+n > ll {
			n = 1
		}
		data := make([]int8, n)
		for k := range data {
			s.seq += 3
			data[k] = s.seq
			s.m.lines[0].data[int(addr-base)+k] = data[k]
		}
		s.real.Write(addr, data)
	case "evict":
		i := s.m.find(base)
		want := s.m.lines[i].data
		s.m.lines = append(s.m.lines[:i], s.m.lines[i+1:]...)
		got, ok := s.real.EvictCacheLine(comp.AlignedAddress(base))
		if !ok || !eqBytes(got, want) {
			return fmt.Sprintf("EvictCacheLine(%d) = %v,%v; line holds %v", base, got, ok, want)
		}
		if s.pending == base || len(s.m.lines) <= s.m.cap {
			s.pending = -1
		}
	case "getline":
		i := s.m.find(base)
		got, ok := s.real.GetCacheLine(comp.AlignedAddress(base))
		if ok != (i >= 0) || (i >= 0 && !eqBytes(got, s.m.lines[i].data)) {
			return fmt.Sprintf("GetCacheLine(%d) = %v,%v", base, got, ok)
		}
	}
	// global agreement at every step: same set of resident lines with the same contents
	real := s.real.Lines()
	if len(real) != len(s.m.lines) {
		return fmt.Sprintf("after %s: %d resident lines, model has %d", o, len(real), len(s.m.lines))
	}
	for _, ml := range s.m.lines {
		found := false
		for _, rl := range real {
			if int32(rl.Boundary[0]) == ml.base {
				found = true
				if int(rl.Boundary[1]-rl.Boundary[0]) != ll || !eqBytes(rl.Data, ml.data) {
					return fmt.Sprintf("after %s: line %d holds %v, model %v", o, ml.base, rl.Data, ml.data)
				}
			}
		}
		if !found {
			return fmt.Sprintf("after %s: line %d missing", o, ml.base)
		}
	}
	if s.pending == -1 && len(real) > s.m.cap {
		return fmt.Sprintf("after %s: %d resident lines exceed capacity %d with no eviction outstanding", o, len(real), s.m.cap)
	}
	if s.pending != -1 {
		// ExistingLines hides exactly the reported victim
		ex := s.real.ExistingLines()
		if len(real) > s.m.cap && len(ex) != s.m.cap {
			return fmt.Sprintf("ExistingLines has %d lines while an eviction is outstanding", len(ex))
		}
	}
	return ""
}

func eqBytes(a, b []int8) bool {
	if len(a) != len(b) {
		return false
	}
	for i := range a {
		if a[i] != b[i] {
			return false
		}
	}
	return true
}

// ---- generic LRU ----

type c13GOp struct {
	Kind string // put, get, find
	Key  int
	Keys []int
}

func c13RunGeneric(capacity int, ops []c13GOp) string {
	real := gcache.NewLRUCache[int, int](capacity)
	var order []int // LRU first
	vals := map[int]int{}
	refresh := func(k int) {
		for i, x := range order {
			if x == k {
				order = append(order[:i], order[i+1:]...)
				break
			}
		}
		order = append(order, k)
	}
	for i, o := range ops {
		switch o.Kind {
		case "put":
			if _, ok := vals[o.Key]; !ok && len(vals) == capacity {
				delete(vals, order[0])
				order = order[1:]
			}
			vals[o.Key] = i
			refresh(o.Key)
			real.Put(o.Key, i)
		case "get":
			v, ok := real.Get(o.Key)
			w, wok := vals[o.Key]
			if ok != wok || (ok && v != w) {
				return fmt.Sprintf("op %d Get(%d) = %d,%v; model %d,%v", i, o.Key, v, ok, w, wok)
			}
			if wok {
				refresh(o.Key)
			}
		case "find":
			k, ok := real.Find(o.Keys)
			wk, wok := 0, false
			for _, x := range order {
				for _, y := range o.Keys {
					if x == y {
						wk, wok = x, true
					}
				}
				if wok {
					break
				}
			}
			if ok != wok || (ok && k != wk) {
				return fmt.Sprintf("op %d Find(%v) = %d,%v; least-recently-used candidate is %d,%v", i, o.Keys, k, ok, wk, wok)
			}
			if wok {
				refresh(wk)
			}
		}
	}
	return ""
}

// ---- property ----

type propC13 struct{}

func (propC13) ID() string { return "C13" }

var c13Kinds = []string{"push", "pushw", "get", "write", "evict", "getline"}

func c13Alphabet(nLines int) []c13Op {
	var a []c13Op
	for _, k := range c13Kinds {
		for l := 0; l < nLines; l++ {
			if k == "get" || k == "write" {
				a = append(a, c13Op{Kind: k, Line: l, Off: 0}, c13Op{Kind: k, Line: l, Off: 3})
			} else {
				a = append(a, c13Op{Kind: k, Line: l})
			}
		}
	}
	return a
}

func (propC13) geoms() [][2]int { return [][2]int{{3, 2}, {4, 3}} } // address lines, capacity
func (p propC13) depth(tier string) int {
	if tier == "thorough" {
		return 7
	}
	return 5
}
func (p propC13) NumCases(tier string) int {
	n := 0
	for _, g := range p.geoms() {
		a := len(c13Alphabet(g[0]))
		n += a * a // sharded by the first two operations
	}
	if tier == "thorough" {
		return n + 400
	}
	return n + 40
}
func (propC13) Rule() string {
	return "comp.LRUCache driven side by side with a map + recency-list model. Bounded-exhaustive part: every protocol-respecting operation sequence up to length 5 (quick) / 7 (thorough) over the alphabet {PushLine, PushLineWithEvictionWarning, Get, Get+Write, EvictCacheLine, GetCacheLine} x lines, for geometry 4-byte lines with capacity 2 over 3 lines and capacity 3 over 4 lines (a second fill while an eviction is outstanding and a fill of a resident line are excluded, as no caller does them). Random part: 2*10^4-step (quick) / 10^5-step histories on 64 B/1 KB and 128 B/4 KB, plus random Put/Get/Find histories on the generic LRU for capacities 1-4. After every operation the returned value, the reported victim and the complete set of resident lines with their contents are compared. distinct_nontrivial = distinct operation sequences executed (each enumerated sequence is distinct by construction; random histories count 1 each)."
}
func (propC13) Assumptions() []string {
	return []string{"Write is preceded by a Get of the same line (every caller in the repository does so), so whether a bare Write refreshes recency is not decided here", "the order of Lines() is not compared, only the victim choice"}
}
func (propC13) MinEvents(string) []string   { return []string{"ops", "victims-checked"} }
func (propC13) Exhaustive(tier string) bool { return true }

func (p propC13) RunCase(tier string, seed int64, idx int) caseResult {
	res := caseResult{Stats: map[string]int64{}}
	off := 0
	for _, g := range p.geoms() {
		alpha := c13Alphabet(g[0])
		n := len(alpha) * len(alpha)
		if idx < off+n {
			k := idx - off
			p.enumerate(&res, g, alpha, []c13Op{alpha[k/len(alpha)], alpha[k%len(alpha)]}, p.depth(tier))
			return res
		}
		off += n
	}
	// random part
	r := caseRand(seed, "C13", idx)
	switch (idx - off) % 3 {
	case 0:
		p.randomHistory(&res, r, 64, 16, 40, tier)
	case 1:
		p.randomHistory(&res, r, 128, 32, 80, tier)
	default:
		// generic LRU
		for h := 0; h < 200; h++ {
			capacity := 1 + r.Intn(4)
			var ops []c13GOp
			for i := 0; i < 60; i++ {
				switch r.Intn(3) {
				case 0:
					ops = append(ops, c13GOp{Kind: "put", Key: r.Intn(6)})
				case 1:
					ops = append(ops, c13GOp{Kind: "get", Key: r.Intn(6)})
				default:
					var ks []int
					for j := 1 + r.Intn(3); j > 0; j-- {
						ks = append(ks, r.Intn(6))
					}
					ops = append(ops, c13GOp{Kind: "find", Keys: ks})
				}
			}
			res.Runs++
			res.DistinctN++
			res.Stats["generic-lru-histories"]++
			res.Stats["ops"] += int64(len(ops))
			if msg := c13RunGeneric(capacity, ops); msg != "" && len(res.Findings) < 2 {
				res.Findings = append(res.Findings, finding{Class: "generic-lru-mismatch", Detail: fmt.Sprintf("capacity %d: %s; history %v", capacity, msg, ops), Step: -1, Extra: fmt.Sprintf("G %d %s", capacity, encodeGOps(ops))})
			}
		}
		if idx-off == 2 {
			res.Sample = map[string]any{"generic_lru_history": "Put(1) Put(2) Find([2,1]) Put(3) Get(1) ... (60 operations, capacity 1-4, keys 0-5)"}
		}
	}
	return res
}

func encodeGOps(ops []c13GOp) string {
	var sb strings.Builder
	for _, o := range ops {
		switch o.Kind {
		case "put":
			fmt.Fprintf(&sb, "p%d ", o.Key)
		case "get":
			fmt.Fprintf(&sb, "g%d ", o.Key)
		default:
			sb.WriteString("f")
			for _, k := range o.Keys {
				fmt.Fprintf(&sb, "%d", k)
			}
			sb.WriteString(" ")
		}
	}
	return sb.String()
}

func decodeGOps(s string) []c13GOp {
	var ops []c13GOp
	for _, t := range strings.Fields(s) {
		switch t[0] {
		case 'p':
			ops = append(ops, c13GOp{Kind: "put", Key: int(t[1] - '0')})
		case 'g':
			ops = append(ops, c13GOp{Kind: "get", Key: int(t[1] - '0')})
		case 'f':
			var ks []int
			for _, c := range t[1:] {
				ks = append(ks, int(c-'0'))
			}
			ops = append(ops, c13GOp{Kind: "find", Keys: ks})
		}
	}
	return ops
}

func encodeOps(ops []c13Op) string {
	var sb strings.Builder
	for _, o := range ops {
		fmt.Fprintf(&sb, "%s:%d:%d:%d ", o.Kind, o.Line, o.Off, o.Val)
	}
	return sb.String()
}

func decodeOps(s string) []c13Op {
	var ops []c13Op
	for _, t := range strings.Fields(s) {
		p := strings.Split(t, ":")
		var o c13Op
		o.Kind = p[0]
		fmt.Sscan(p[1], &o.Line)
		fmt.Sscan(p[2], &o.Off)
		var v int
		fmt.Sscan(p[3], &v)
		o.Val = int8(v)
		ops = append(ops, o)
	}
	return ops
}

func c13Replay(lineLen, nLines int, ops []c13Op) string {
	s := newC13Session(lineLen, nLines)
	for i, o := range ops {
		if !s.valid(o) {
			return fmt.Sprintf("op %d %s is not valid in the recorded history", i, o)
		}
		if msg := s.apply(o); msg != "" {
			return fmt.Sprintf("op %d: %s", i, msg)
		}
	}
	return ""
}

// enumerate runs every valid extension of prefix up to the depth.
func (p propC13) enumerate(res *caseResult, g [2]int, alpha []c13Op, prefix []c13Op, depth int) {
	var rec func(seq []c13Op)
	run := func(seq []c13Op) bool {
		// replay the whole sequence on a fresh cache (cheap: <= 8 ops)
		s := newC13Session(4, g[1])
		for i, o := range seq {
			if !s.valid(o) {
				return false
			}
			if o.Kind == "push" || o.Kind == "pushw" {
				res.Stats["victims-checked"]++
			}
			if msg := s.apply(o); msg != "" {
				if len(res.Findings) < 2 {
					res.Findings = append(res.Findings, finding{Class: "lru-mismatch", Detail: fmt.Sprintf("geometry 4B x %d lines, op %d of %v: %s", g[1], i, seq, msg), Step: -1, Extra: fmt.Sprintf("L 4 %d %s", g[1], encodeOps(seq))})
				}
				return false
			}
		}
		res.Stats["ops"] += int64(len(seq))
		return true
	}
	rec = func(seq []c13Op) {
		res.Runs++
		res.DistinctN++
		if !run(seq) || len(seq) >= depth {
			return
		}
		for _, o := range alpha {
			rec(append(append([]c13Op{}, seq...), o))
		}
	}
	// validity of the prefix itself
	s := newC13Session(4, g[1])
	for _, o := range prefix {
		if !s.valid(o) {
			return
		}
		s.apply(o)
	}
	rec(prefix)
	if res.Sample == nil && len(prefix) == 2 && prefix[0].Kind == "push" && prefix[1].Kind == "push" && prefix[0].Line != prefix[1].Line {
		res.Sample = map[string]any{"enumerated_prefix": fmt.Sprint(prefix), "geometry": fmt.Sprintf("4-byte lines, capacity %d, %d lines of address space", g[1], g[0]), "depth": depth}
	}
}

func (p propC13) randomHistory(res *caseResult, r *rand.Rand, lineLen, nLines, addrLines int, tier string) {
	steps := 20000
	if tier == "thorough" {
		steps = 100000
	}
	s := newC13Session(lineLen, nLines)
	var hist []c13Op
	res.Runs++
	res.DistinctN++
	res.Stats["random-histories"]++
	for i := 0; i < steps; i++ {
		o := c13Op{Kind: c13Kinds[r.Intn(len(c13Kinds))], Line: r.Intn(addrLines), Off: r.Intn(lineLen), Val: int8(r.Intn(256))}
		if s.pending != -1 && r.Intn(2) == 0 {
			o = c13Op{Kind: "evict", Line: int(s.pending) / lineLen}
		}
		if !s.valid(o) {
			continue
		}
		if len(hist) < 4000 {
			hist = append(hist, o)
		}
		if o.Kind == "push" || o.Kind == "pushw" {
			res.Stats["victims-checked"]++
		}
		res.Stats["ops"]++
		if msg := s.apply(o); msg != "" {
			ex := ""
			if i < 4000 {
				ex = fmt.Sprintf("L %d %d %s", lineLen, nLines, encodeOps(hist))
			}
			res.Findings = append(res.Findings, finding{Class: "lru-mismatch", Detail: fmt.Sprintf("geometry %dB x %d lines, step %d: %s", lineLen, nLines, i, msg), Step: -1, Extra: ex})
			return
		}
	}
}

func (propC13) Replay(f finding) (bool, string) {
	fs := strings.SplitN(f.Extra, " ", 2)
	if len(fs) < 2 {
		return false, "no recorded history"
	}
	if fs[0] == "G" {
		var capacity int
		rest := strings.SplitN(fs[1], " ", 2)
		fmt.Sscan(rest[0], &capacity)
		msg := c13RunGeneric(capacity, decodeGOps(rest[1]))
		return msg != "", msg
	}
	var ll, nl int
	rest := strings.SplitN(fs[1], " ", 3)
	fmt.Sscan(rest[0], &ll)
	fmt.Sscan(rest[1], &nl)
	msg := c13Replay(ll, nl, decodeOps(rest[2]))
	return msg != "", msg
}

func init() { register(propC13{}) }
