package main

// C14: pipeline buses deliver each item once, in order, a cycle later, within capacity.

import (
	"fmt"
	"math/rand"
	"strings"

	"github.com/teivah/majorana/proc/comp"
)

// ---------- BufferedBus ----------

type bbItem struct {
	id, addCycle, avail int
}

// bbSession drives a real BufferedBus and a FIFO-with-latency model.
type bbSession struct {
	real       *comp.BufferedBus[int]
	qlen, blen int
	cycle      int
	buffer     []bbItem
	queue      []bbItem
	nextID     int
	lastGot    *bbItem // item obtained by a Get/Pick in the current cycle (may be reverted)
	delivered  map[int]int
	lastDeliv  int
	addCycle   map[int]int
	ops        int64
	plainOrder bool // no pick/revert/deleteLast so far: strict insertion order must hold
}

func newBBSession(qlen, blen int) *bbSession {
	s := &bbSession{real: comp.NewBufferedBus[int](qlen, blen), qlen: qlen, blen: blen, delivered: map[int]int{}, addCycle: map[int]int{}, lastDeliv: -1, plainOrder: true}
	return s
}

var bbOps = []string{"tick", "add", "get", "pick0", "pick1", "revert", "dellast", "clean"}

func (s *bbSession) valid(op string) bool {
	switch op {
	case "add":
		return len(s.buffer) < s.blen // producers add only while the bus reports room
	case "revert":
		return s.lastGot != nil && len(s.queue) == 0
	case "dellast":
		return len(s.buffer) > 0 && s.buffer[len(s.buffer)-1].addCycle == s.cycle
	}
	return true
}

func (s *bbSession) deliver(it bbItem) string {
	if c, dup := s.delivered[it.id]; dup {
		return fmt.Sprintf("item %d delivered twice (cycles %d and %d)", it.id, c, s.cycle)
	}
	s.delivered[it.id] = s.cycle
	if s.cycle <= it.addCycle {
		return fmt.Sprintf("item %d added in cycle %d was visible in cycle %d", it.id, it.addCycle, s.cycle)
	}
	if s.plainOrder && it.id < s.lastDeliv {
		return fmt.Sprintf("item %d delivered after item %d", it.id, s.lastDeliv)
	}
	s.lastDeliv = it.id
	return ""
}

func (s *bbSession) apply(op string) (msg string) {
	defer func() {
		if e := recover(); e != nil {
			msg = fmt.Sprintf("panic in %s: %v", op, e)
		}
	}()
	s.ops++
	switch op {
	case "tick":
		s.cycle++
		s.lastGot = nil
		for len(s.queue) < s.qlen && len(s.buffer) > 0 && s.buffer[0].avail <= s.cycle {
			s.queue = append(s.queue, s.buffer[0])
			s.buffer = s.buffer[1:]
		}
		s.real.Connect(s.cycle)
	case "add":
		if !s.real.CanAdd() {
			return "CanAdd is false although the bus holds fewer items than its input capacity"
		}
		if r := s.real.RemainingToAdd(); r != s.blen-len(s.buffer) {
			return fmt.Sprintf("RemainingToAdd = %d, expected %d", r, s.blen-len(s.buffer))
		}
		it := bbItem{id: s.nextID, addCycle: s.cycle, avail: s.cycle + 1}
		s.nextID++
		s.buffer = append(s.buffer, it)
		s.addCycle[it.id] = s.cycle
		s.real.Add(it.id, s.cycle)
	case "get":
		v, ok := s.real.Get()
		if len(s.queue) == 0 {
			if ok {
				return fmt.Sprintf("Get returned %d from a bus with nothing visible", v)
			}
			return ""
		}
		want := s.queue[0]
		s.queue = s.queue[1:]
		if !ok || v != want.id {
			return fmt.Sprintf("Get returned %d,%v; the oldest visible item is %d", v, ok, want.id)
		}
		s.lastGot = &want
		return s.deliver(want)
	case "pick0", "pick1":
		par := 0
		if op == "pick1" {
			par = 1
		}
		v, ok := s.real.Pick(func(x int) bool { return x%2 == par })
		idx := -1
		for i, it := range s.queue {
			if it.id%2 == par {
				idx = i
				break
			}
		}
		if idx == -1 {
			if ok {
				return fmt.Sprintf("Pick returned %d although no visible item satisfies the predicate", v)
			}
			return ""
		}
		want := s.queue[idx]
		s.queue = append(append([]bbItem{}, s.queue[:idx]...), s.queue[idx+1:]...)
		if !ok || v != want.id {
			return fmt.Sprintf("Pick returned %d,%v; the first matching item is %d", v, ok, want.id)
		}
		if idx != 0 {
			s.plainOrder = false
		}
		s.lastGot = &want
		return s.deliver(want)
	case "revert":
		it := *s.lastGot
		s.lastGot = nil
		delete(s.delivered, it.id)
		it.avail = s.cycle
		it.addCycle = s.cycle - 1 // it was already visible; it may be delivered again from the next connect on
		s.buffer = append([]bbItem{it}, s.buffer...)
		s.plainOrder = false
		s.real.Revert(it.id, s.cycle)
	case "dellast":
		s.buffer = s.buffer[:len(s.buffer)-1]
		s.plainOrder = false
		s.real.DeleteLast()
	case "clean":
		s.buffer, s.queue = nil, nil
		s.lastGot = nil
		s.real.Clean()
		if !s.real.IsEmpty() {
			return "bus not empty after Clean"
		}
	}
	// occupancy and emptiness agree with the model at every step
	if len(s.queue) > s.qlen || len(s.buffer) > s.blen+1 {
		return "model exceeded capacity (harness bug)"
	}
	if s.real.PendingRead() != len(s.queue) {
		return fmt.Sprintf("after %s: %d items visible, expected %d", op, s.real.PendingRead(), len(s.queue))
	}
	if s.real.PendingRead() > s.qlen {
		return fmt.Sprintf("after %s: %d visible items exceed the output capacity %d", op, s.real.PendingRead(), s.qlen)
	}
	if s.real.IsEmpty() != (len(s.queue) == 0 && len(s.buffer) == 0) {
		return fmt.Sprintf("after %s: IsEmpty = %v, the bus holds %d items", op, s.real.IsEmpty(), len(s.queue)+len(s.buffer))
	}
	if s.real.CanAdd() != (len(s.buffer) != s.blen) {
		return fmt.Sprintf("after %s: CanAdd = %v with %d of %d input slots used", op, s.real.CanAdd(), len(s.buffer), s.blen)
	}
	if s.real.CanGet() != (len(s.queue) > 0) {
		return fmt.Sprintf("after %s: CanGet = %v with %d visible items", op, s.real.CanGet(), len(s.queue))
	}
	return ""
}

// drain checks that everything still in the bus comes out, once, in order.
func (s *bbSession) drain() string {
	for i := 0; i < 4*(s.qlen+s.blen)+4; i++ {
		if msg := s.apply("tick"); msg != "" {
			return msg
		}
		for len(s.queue) > 0 {
			if msg := s.apply("get"); msg != "" {
				return msg
			}
		}
		if len(s.buffer) == 0 && len(s.queue) == 0 {
			break
		}
	}
	if len(s.buffer) != 0 || len(s.queue) != 0 {
		return "items stuck in the model (harness bug)"
	}
	if !s.real.IsEmpty() {
		return "items remain in the bus after it was drained"
	}
	return ""
}

func bbRun(qlen, blen int, ops []string) string {
	s := newBBSession(qlen, blen)
	for i, op := range ops {
		if !s.valid(op) {
			return fmt.Sprintf("invalid op %d %s", i, op)
		}
		if msg := s.apply(op); msg != "" {
			return fmt.Sprintf("op %d %s: %s", i, op, msg)
		}
	}
	if msg := s.drain(); msg != "" {
		return "drain: " + msg
	}
	return ""
}

// ---------- SimpleBus ----------

// sbRun: ops per cycle: 'a' producer adds if CanAdd, 'g' consumer gets, 'n' next cycle, 'f' flush.
func sbRun(ops string) string {
	b := &comp.SimpleBus[int]{}
	type it struct{ id, cycle int }
	var fifo []it
	cycle, next, last := 0, 0, -1
	gotThisCycle := false
	for i, op := range ops {
		switch op {
		case 'n':
			cycle++
			gotThisCycle = false
		case 'a':
			if len(fifo) >= 2 {
				if b.CanAdd() {
					// room is reported although two items are in flight: adding would overwrite one
					return fmt.Sprintf("op %d: CanAdd true with two undelivered items", i)
				}
				continue
			}
			if !b.CanAdd() {
				continue // the producer waits; allowed
			}
			b.Add(next)
			fifo = append(fifo, it{next, cycle})
			next++
		case 'g':
			if gotThisCycle {
				continue // one Get per consumer per cycle
			}
			gotThisCycle = true
			v, ok := b.Get()
			if ok {
				if len(fifo) == 0 {
					return fmt.Sprintf("op %d: Get returned %d from an empty bus", i, v)
				}
				if v != fifo[0].id {
					return fmt.Sprintf("op %d: Get returned %d, the oldest item is %d", i, v, fifo[0].id)
				}
				if fifo[0].cycle >= cycle {
					return fmt.Sprintf("op %d: item %d added in cycle %d visible in cycle %d", i, v, fifo[0].cycle, cycle)
				}
				if v <= last {
					return fmt.Sprintf("op %d: item %d delivered out of order", i, v)
				}
				last = v
				fifo = fifo[1:]
			}
		case 'f':
			b.Clean()
			fifo = nil
			if !b.IsEmpty() {
				return fmt.Sprintf("op %d: not empty after Clean", i)
			}
		}
		if b.IsEmpty() != (len(fifo) == 0) {
			return fmt.Sprintf("op %d: IsEmpty = %v with %d undelivered items", i, b.IsEmpty(), len(fifo))
		}
	}
	// bounded progress: everything comes out within 2 further cycles per item
	for k := 0; k < 2*len(fifo)+2 && len(fifo) > 0; k++ {
		cycle++
		v, ok := b.Get()
		if ok {
			if v != fifo[0].id {
				return fmt.Sprintf("drain: Get returned %d, expected %d", v, fifo[0].id)
			}
			fifo = fifo[1:]
		}
	}
	if len(fifo) != 0 {
		return fmt.Sprintf("drain: %d items were never delivered", len(fifo))
	}
	return ""
}

// ---------- Queue and Broadcast ----------

func queueRun(r *rand.Rand) string {
	q := comp.NewQueue[int](4 + r.Intn(6))
	var model []int
	next := 0
	for step := 0; step < 60; step++ {
		switch r.Intn(3) {
		case 0:
			if !q.IsFull() {
				q.Push(next)
				model = append(model, next)
				next++
			}
		default:
			// iterate, removing a random subset of visited elements, possibly stopping early
			var seen []int
			stop := -1
			if r.Intn(3) == 0 && len(model) > 0 {
				stop = r.Intn(len(model))
			}
			var keep []int
			i := 0
			for elem := range q.Iterator() {
				v := q.Value(elem)
				seen = append(seen, v)
				if r.Intn(2) == 0 {
					q.Remove(elem)
				} else {
					keep = append(keep, v)
				}
				if i == stop {
					break
				}
				i++
			}
			for j, v := range seen {
				if j >= len(model) || model[j] != v {
					return fmt.Sprintf("iteration yielded %v, queue holds %v", seen, model)
				}
			}
			if stop == -1 && len(seen) != len(model) {
				return fmt.Sprintf("iteration yielded %d of %d elements", len(seen), len(model))
			}
			model = append(keep, model[len(seen):]...)
		}
		if q.Length() != len(model) {
			return fmt.Sprintf("Length = %d, expected %d", q.Length(), len(model))
		}
	}
	return ""
}

func broadcastRun(r *rand.Rand) string {
	n := 1 + r.Intn(3)
	b := comp.NewBroadcast[int](n)
	pend := make([][]int, n)
	next := 0
	for step := 0; step < 60; step++ {
		if r.Intn(2) == 0 {
			b.Notify(next)
			for i := range pend {
				pend[i] = append(pend[i], next)
			}
			next++
			continue
		}
		id := r.Intn(n)
		evs := b.Read(id)
		if len(evs) != len(pend[id]) {
			return fmt.Sprintf("listener %d read %d events, %d are pending", id, len(evs), len(pend[id]))
		}
		var keep []int
		for i, e := range evs {
			if e.Data != pend[id][i] {
				return fmt.Sprintf("listener %d event %d = %d, expected %d", id, i, e.Data, pend[id][i])
			}
			if r.Intn(2) == 0 {
				e.Commit()
			} else {
				keep = append(keep, e.Data)
			}
		}
		pend[id] = keep
	}
	return ""
}

// ---------- property ----------

type propC14 struct{}

func (propC14) ID() string { return "C14" }
func (p propC14) depth(tier string) int {
	if tier == "thorough" {
		return 9
	}
	return 7
}
func (p propC14) caps() [][2]int {
	return [][2]int{{1, 1}, {2, 2}, {1, 3}, {3, 1}, {4, 4}, {2, 3}}
}
func (p propC14) NumCases(tier string) int {
	n := len(p.caps())*len(bbOps)*len(bbOps) + 16
	if tier == "thorough" {
		return n + 600
	}
	return n + 60
}
func (propC14) Rule() string {
	return "BufferedBus: every protocol-respecting history over {next cycle + Connect, Add, Get, Pick(even), Pick(odd), Revert (only of the item just taken, visible queue empty), DeleteLast (only of an item added this cycle), Clean} up to length 7 (quick) / 9 (thorough) for capacities (out,in) in {1x1, 2x2, 1x3, 3x1, 4x4, 2x3}, each followed by a drain; producers add only while CanAdd. SimpleBus: every string over {add, get, next-cycle, clean} up to length 10 / 13 with one Get per cycle. Plus seeded random histories of 400 steps, and random iterate/remove histories on Queue and notify/read/commit histories on Broadcast. Oracle: FIFO-with-latency model compared after every operation, and directly on the delivery log: exactly once, insertion order, never in the cycle of the add, occupancy within the configured lengths, empty after Clean, reverted item delivered next. distinct_nontrivial = distinct histories executed."
}
func (propC14) Assumptions() []string {
	return []string{"cycles are non-decreasing; SimpleBus has no cycle argument, its cycle is one Get per consumer per cycle as every user does", "Revert is exercised only as 'put back what was just taken while nothing else is visible' (the only unambiguous reading; the repository never calls it)"}
}
func (propC14) MinEvents(string) []string {
	return []string{"bb-histories", "sb-histories", "deliveries"}
}
func (propC14) Exhaustive(tier string) bool { return true }

func (p propC14) RunCase(tier string, seed int64, idx int) caseResult {
	res := caseResult{Stats: map[string]int64{}}
	nb := len(p.caps()) * len(bbOps) * len(bbOps)
	switch {
	case idx < nb:
		c := p.caps()[idx/(len(bbOps)*len(bbOps))]
		k := idx % (len(bbOps) * len(bbOps))
		prefix := []string{bbOps[k/len(bbOps)], bbOps[k%len(bbOps)]}
		p.enumBB(&res, c, prefix, p.depth(tier))
		if idx == 1 {
			res.Sample = map[string]any{"bus": "BufferedBus out=1 in=1", "history_prefix": prefix, "example": "tick add tick get revert tick get"}
		}
	case idx < nb+16:
		// SimpleBus exhaustive, sharded by the first two symbols
		k := idx - nb
		al := "agnf"
		d := 10
		if tier == "thorough" {
			d = 13
		}
		var rec func(s string)
		rec = func(s string) {
			res.Runs++
			res.DistinctN++
			res.Stats["sb-histories"]++
			if msg := sbRun(s); msg != "" {
				if len(res.Findings) < 2 {
					res.Findings = append(res.Findings, finding{Class: "bus-mismatch", Site: "SimpleBus", Detail: fmt.Sprintf("SimpleBus history %q: %s", s, msg), Extra: "S " + s, Step: -1})
				}
				return
			}
			if len(s) >= d {
				return
			}
			for _, c := range al {
				rec(s + string(c))
			}
		}
		rec(string(al[k/4]) + string(al[k%4]))
	default:
		r := caseRand(seed, "C14", idx)
		for h := 0; h < 30; h++ {
			c := [2]int{1 + r.Intn(4), 1 + r.Intn(4)}
			s := newBBSession(c[0], c[1])
			var hist []string
			bad := ""
			for i := 0; i < 400 && bad == ""; i++ {
				op := bbOps[r.Intn(len(bbOps))]
				if r.Intn(3) == 0 {
					op = "tick"
				}
				if op == "clean" && r.Intn(8) != 0 {
					op = "get"
				}
				if !s.valid(op) {
					continue
				}
				hist = append(hist, op)
				if msg := s.apply(op); msg != "" {
					bad = fmt.Sprintf("op %d %s: %s", len(hist)-1, op, msg)
				}
			}
			if bad == "" {
				if msg := s.drain(); msg != "" {
					bad = "drain: " + msg
				}
			}
			res.Runs++
			res.DistinctN++
			res.Stats["bb-histories"]++
			res.Stats["deliveries"] += int64(len(s.delivered))
			if bad != "" && len(res.Findings) < 2 {
				res.Findings = append(res.Findings, finding{Class: "bus-mismatch", Site: "BufferedBus", Detail: fmt.Sprintf("BufferedBus out=%d in=%d: %s", c[0], c[1], bad), Extra: fmt.Sprintf("B %d %d %s", c[0], c[1], strings.Join(hist, " ")), Step: -1})
			}
			// SimpleBus random
			var sb strings.Builder
			for i := 0; i < 200; i++ {
				sb.WriteByte("aggnnf"[r.Intn(6)])
			}
			res.Runs++
			res.DistinctN++
			res.Stats["sb-histories"]++
			if msg := sbRun(sb.String()); msg != "" && len(res.Findings) < 3 {
				res.Findings = append(res.Findings, finding{Class: "bus-mismatch", Site: "SimpleBus", Detail: msg, Extra: "S " + sb.String(), Step: -1})
			}
			res.Runs += 2
			res.Stats["queue-histories"]++
			res.Stats["broadcast-histories"]++
			if msg := queueRun(r); msg != "" && len(res.Findings) < 3 {
				res.Findings = append(res.Findings, finding{Class: "queue-mismatch", Site: "Queue", Detail: msg, Step: -1})
			}
			if msg := broadcastRun(r); msg != "" && len(res.Findings) < 3 {
				res.Findings = append(res.Findings, finding{Class: "broadcast-mismatch", Site: "Broadcast", Detail: msg, Step: -1})
			}
		}
	}
	return res
}

func (p propC14) enumBB(res *caseResult, c [2]int, prefix []string, depth int) {
	var rec func(seq []string)
	rec = func(seq []string) {
		s := newBBSession(c[0], c[1])
		for i, op := range seq {
			if !s.valid(op) {
				return
			}
			if msg := s.apply(op); msg != "" {
				if len(res.Findings) < 2 {
					res.Findings = append(res.Findings, finding{Class: "bus-mismatch", Site: "BufferedBus", Detail: fmt.Sprintf("BufferedBus out=%d in=%d history %v: op %d: %s", c[0], c[1], seq, i, msg), Extra: fmt.Sprintf("B %d %d %s", c[0], c[1], strings.Join(seq, " ")), Step: -1})
				}
				return
			}
		}
		res.Runs++
		res.DistinctN++
		res.Stats["bb-histories"]++
		if msg := s.drain(); msg != "" {
			if len(res.Findings) < 2 {
				res.Findings = append(res.Findings, finding{Class: "bus-mismatch", Site: "BufferedBus", Detail: fmt.Sprintf("BufferedBus out=%d in=%d history %v: drain: %s", c[0], c[1], seq, msg), Extra: fmt.Sprintf("B %d %d %s", c[0], c[1], strings.Join(seq, " ")), Step: -1})
			}
			return
		}
		res.Stats["deliveries"] += int64(len(s.delivered))
		if len(seq) >= depth {
			return
		}
		for _, op := range bbOps {
			rec(append(append([]string{}, seq...), op))
		}
	}
	rec(prefix)
}

func (propC14) Replay(f finding) (bool, string) {
	fs := strings.Fields(f.Extra)
	if len(fs) == 0 {
		return false, "no recorded history (queue/broadcast findings are replayed by re-running with the same seed)"
	}
	if fs[0] == "S" {
		h := ""
		if len(fs) > 1 {
			h = fs[1]
		}
		msg := sbRun(h)
		return msg != "", msg
	}
	var q, b int
	fmt.Sscan(fs[1], &q)
	fmt.Sscan(fs[2], &b)
	msg := bbRun(q, b, fs[3:])
	return msg != "", msg
}

func init() { register(propC14{}) }
