package main

// C15: speculative register state commits and rolls back by program order.

import (
	"fmt"
	"math/rand"
	"strings"

	"github.com/teivah/majorana/proc/comp"
	"github.com/teivah/majorana/risc"
)

type c15Op struct {
	K   byte // w write, r tagged read, p plain read, c commit, b rollback
	Reg int  // index into c15Regs
	Tag int32
}

var c15Regs = []string{"t0", "t1", "t2"}
var c15Tags = []int32{8, 12, 20, 1004}

func (o c15Op) String() string {
	switch o.K {
	case 'w':
		return fmt.Sprintf("write(%s,tag %d)", c15Regs[o.Reg], o.Tag)
	case 'r':
		return fmt.Sprintf("read(%s,tag %d)", c15Regs[o.Reg], o.Tag)
	case 'p':
		return fmt.Sprintf("read(%s)", c15Regs[o.Reg])
	case 'c':
		return "commit"
	default:
		return fmt.Sprintf("rollback(%d)", o.Tag)
	}
}

type c15Write struct {
	reg int
	val int32
	tag int32
}

var c15MvApps = map[string]risc.Application{}

// c15InfoNotYoungest counts tagged reads that returned an eligible but not the youngest eligible value
// (reported as information; the statement only forbids values written by younger instructions).
var c15InfoNotYoungest int64

func c15Mv(reg string) risc.InstructionRunner {
	app, ok := c15MvApps[reg]
	if !ok {
		var err error
		app, err = risc.Parse("mv a7, " + reg + "\n")
		if err != nil {
			panic(err)
		}
		c15MvApps[reg] = app
	}
	app.Instructions[0].Forward(risc.Forward{})
	return app.Instructions[0]
}

// c15Run executes a history on the Context API. rat selects the mechanism.
// slots is the number of uncommitted writes per register up to which rollback
// and tagged reads are guaranteed (1 for the map, 10 for the ring).
func c15Run(rat bool, ops []c15Op) (msg string) {
	defer func() {
		if e := recover(); e != nil {
			msg = fmt.Sprintf("panic: %v at %s", e, panicFrame())
		}
	}()
	slots := 1
	if rat {
		slots = 10
	}
	ctx := risc.NewContext(false, 16, rat)
	committed := map[int]int32{}
	for i, r := range c15Regs {
		committed[i] = int32(100 + i)
		ctx.Registers[risc.RegisterType(regIdx(r))] = committed[i]
	}
	if rat {
		ctx.InitRAT()
	}
	var pend []c15Write
	nextVal := int32(1000)
	countFor := func(reg int) int {
		n := 0
		for _, w := range pend {
			if w.reg == reg {
				n++
			}
		}
		return n
	}
	// youngest returns the value of the youngest write of reg among the eligible pending writes under both
	// readings of "youngest" (see Assumptions): the most recent one in the history, and the one with the largest
	// tag (the most recent of those). Both coincide whenever writes arrive in program order.
	youngest := func(reg int, eligible func(c15Write) bool) (hist, tag int32, any bool) {
		var bestTag int32
		for _, w := range pend {
			if w.reg != reg || !eligible(w) {
				continue
			}
			hist = w.val
			if !any || w.tag >= bestTag {
				tag, bestTag = w.val, w.tag
			}
			any = true
		}
		return
	}
	// checkRegs compares the architectural registers with the accepted values and adopts the reading the
	// implementation follows where the two differ.
	checkRegs := func(what string, guaranteed map[int]bool, accepted map[int][]int32) string {
		if rat {
			ctx.RATFlush()
		}
		for i, r := range c15Regs {
			got := ctx.Registers[risc.RegisterType(regIdx(r))]
			if !guaranteed[i] {
				continue
			}
			ok := false
			for _, a := range accepted[i] {
				if got == a {
					ok = true
				}
			}
			if !ok {
				return fmt.Sprintf("after %s: %s = %d, expected %v", what, r, got, accepted[i])
			}
			committed[i] = got
		}
		return ""
	}
	for i, o := range ops {
		reg := risc.RegisterType(0)
		if o.K == 'w' || o.K == 'r' || o.K == 'p' {
			reg = risc.RegisterType(regIdx(c15Regs[o.Reg]))
		}
		switch o.K {
		case 'w':
			nextVal++
			exe := risc.Execution{RegisterChange: true, Register: reg, RegisterValue: nextVal}
			if rat {
				ctx.TransactionRATWrite(exe, o.Tag)
			} else {
				ctx.TransactionWriteRegister(exe, o.Tag)
			}
			pend = append(pend, c15Write{o.Reg, nextVal, o.Tag})
		case 'p', 'r':
			seq := int32(0)
			if o.K == 'r' {
				if !rat {
					continue // the transaction map has no tagged read path; its users always read plainly
				}
				seq = o.Tag
			}
			exe, err := c15Mv(c15Regs[o.Reg]).Run(ctx, nil, 0, nil, seq)
			if err != nil {
				return fmt.Sprintf("op %d %s: %v", i, o, err)
			}
			got := exe.RegisterValue
			if o.K == 'p' {
				// plain read: the youngest uncommitted value, else the committed one
				h, t, any := youngest(o.Reg, func(c15Write) bool { return true })
				if !any {
					h, t = committed[o.Reg], committed[o.Reg]
				}
				if got != h && got != t {
					return fmt.Sprintf("op %d %s returned %d, the youngest value is %d (most recent write) / %d (largest tag)", i, o, got, h, t)
				}
			} else if countFor(o.Reg) <= slots {
				// information only (not required by the statement): the youngest eligible write
				eh, et, any := youngest(o.Reg, func(w c15Write) bool { return w.tag <= o.Tag })
				if !any {
					eh, et = committed[o.Reg], committed[o.Reg]
				}
				if got != eh && got != et {
					c15InfoNotYoungest++
				}
				// tagged read: never a value written by a younger instruction
				ok := got == committed[o.Reg]
				for _, w := range pend {
					if w.reg == o.Reg && w.val == got && w.tag <= o.Tag {
						ok = true
					}
				}
				if !ok {
					young := false
					for _, w := range pend {
						if w.reg == o.Reg && w.val == got && w.tag > o.Tag {
							young = true
						}
					}
					if young {
						return fmt.Sprintf("op %d %s returned %d, which was written with a younger tag", i, o, got)
					}
					return fmt.Sprintf("op %d %s returned %d, a value nobody wrote to that register", i, o, got)
				}
			}
		case 'c':
			g := map[int]bool{}
			for r := range c15Regs {
				g[r] = true // commit is guaranteed even beyond the slots
			}
			acc := map[int][]int32{}
			for r := range c15Regs {
				h, t, any := youngest(r, func(c15Write) bool { return true })
				if !any {
					h, t = committed[r], committed[r]
				}
				acc[r] = []int32{h, t}
			}
			pend = nil
			if rat {
				ctx.RATCommit()
			} else {
				ctx.Commit()
			}
			if m := checkRegs(fmt.Sprintf("op %d commit", i), g, acc); m != "" {
				return m
			}
		case 'b':
			g := map[int]bool{}
			for r := range c15Regs {
				g[r] = countFor(r) <= slots
			}
			acc := map[int][]int32{}
			for r := range c15Regs {
				h, t, any := youngest(r, func(w c15Write) bool { return w.tag < o.Tag })
				if !any {
					h, t = committed[r], committed[r] // unchanged if there is none
				}
				acc[r] = []int32{h, t}
			}
			pend = nil
			if rat {
				ctx.RATRollback(o.Tag)
			} else {
				ctx.Rollback(o.Tag)
			}
			if m := checkRegs(fmt.Sprintf("op %d %s", i, o), g, acc); m != "" {
				return m
			}
			// registers outside the guarantee: resynchronise the model with what the table now holds
			if rat {
				ctx.RATFlush()
			}
			for r, name := range c15Regs {
				if !g[r] {
					committed[r] = ctx.Registers[risc.RegisterType(regIdx(name))]
				}
			}
		}
	}
	return ""
}

// c15RunRing drives comp.RAT directly with ring length n.
func c15RunRing(n int, ops []c15Op) (msg string) {
	defer func() {
		if e := recover(); e != nil {
			msg = fmt.Sprintf("panic: %v at %s", e, panicFrame())
		}
	}()
	type unit struct{ tag, val int32 }
	rat := comp.NewRAT[int, unit](n)
	hist := map[int][]unit{}
	nextVal := int32(0)
	for i, o := range ops {
		switch o.K {
		case 'w':
			nextVal++
			rat.Write(o.Reg, unit{o.Tag, nextVal})
			hist[o.Reg] = append(hist[o.Reg], unit{o.Tag, nextVal})
		case 'p':
			got, ok := rat.Read(o.Reg)
			h := hist[o.Reg]
			if ok != (len(h) > 0) || (ok && got != h[len(h)-1]) {
				return fmt.Sprintf("op %d Read(%d) = %v,%v; history %v", i, o.Reg, got, ok, h)
			}
		case 'r':
			got, ok := rat.Find(o.Reg, func(u unit) bool { return u.tag <= o.Tag })
			if ok && got.tag > o.Tag {
				return fmt.Sprintf("op %d Find(%d, tag<=%d) returned a value with tag %d", i, o.Reg, o.Tag, got.tag)
			}
			if ok {
				found := false
				for _, u := range hist[o.Reg] {
					if u == got {
						found = true
					}
				}
				if !found {
					return fmt.Sprintf("op %d Find(%d) returned %v, never written", i, o.Reg, got)
				}
			}
		case 'c':
			vals := rat.Values()
			for r, h := range hist {
				if len(h) == 0 {
					continue
				}
				if v, ok := vals[r]; !ok || v != h[len(h)-1] {
					return fmt.Sprintf("op %d Values()[%d] = %v,%v; youngest write %v", i, r, v, ok, h[len(h)-1])
				}
			}
			if len(vals) != len(hist) {
				return fmt.Sprintf("op %d Values() has %d keys, %d were written", i, len(vals), len(hist))
			}
		case 'b':
			vals := rat.FindValues(func(u unit) bool { return u.tag < o.Tag })
			for r, h := range hist {
				lo := 0
				if len(h) > n {
					lo = len(h) - n // only the last n writes are still in the ring
				}
				var want *unit
				for k := len(h) - 1; k >= lo; k-- {
					if h[k].tag < o.Tag {
						want = &h[k]
						break
					}
				}
				got, ok := vals[r]
				if want == nil {
					if ok {
						return fmt.Sprintf("op %d FindValues(tag<%d)[%d] = %v although no retained write of that register is older than %d (history %v)", i, o.Tag, r, got, o.Tag, h)
					}
				} else if !ok || got != *want {
					return fmt.Sprintf("op %d FindValues(tag<%d)[%d] = %v,%v; youngest eligible write is %v (history %v)", i, o.Tag, r, got, ok, *want, h)
				}
			}
		}
	}
	return ""
}

type propC15 struct{}

func (propC15) ID() string { return "C15" }

func c15Alphabet(nregs int, withTagged bool) []c15Op {
	var a []c15Op
	for r := 0; r < nregs; r++ {
		for _, t := range c15Tags {
			a = append(a, c15Op{K: 'w', Reg: r, Tag: t})
		}
	}
	for r := 0; r < nregs; r++ {
		a = append(a, c15Op{K: 'p', Reg: r})
		if withTagged {
			for _, t := range c15Tags[:3] {
				a = append(a, c15Op{K: 'r', Reg: r, Tag: t})
			}
		}
	}
	a = append(a, c15Op{K: 'c'})
	// rollback targets: equal to a write's tag (the write itself is not older than s) and in between
	for _, t := range []int32{8, 12, 13, 21} {
		a = append(a, c15Op{K: 'b', Tag: t})
	}
	return a
}

func (propC15) depth(tier string) int {
	if tier == "thorough" {
		return 6
	}
	return 5
}

// shards: mechanism (map, ring-through-Context, raw ring n=2,3) x first op
func (p propC15) shards() []struct {
	mech  string
	alpha []c15Op
} {
	return []struct {
		mech  string
		alpha []c15Op
	}{
		{"map", c15Alphabet(2, false)},
		{"rat", c15Alphabet(2, true)},
		{"ring2", c15Alphabet(2, true)},
		{"ring3", c15Alphabet(2, true)},
	}
}

func (p propC15) NumCases(tier string) int {
	n := 0
	for _, s := range p.shards() {
		n += len(s.alpha)
	}
	if tier == "thorough" {
		return n + 400
	}
	return n + 48
}
func (propC15) Rule() string {
	return "scripted histories on the public Context API of both mechanisms (TransactionWriteRegister/Commit/Rollback and InitRAT/TransactionRATWrite/RATCommit/RATRollback/RATFlush, reads through 'mv a7, r' executed plainly or with a sequence id) and on comp.RAT directly (ring lengths 2 and 3 exhaustively, 2..10 randomly). Exhaustive part: every history up to length 5 (quick) / 6 (thorough) over {write(reg, tag) for 2 registers x 4 tags in any order, plain read, tagged read (3 tags, ring only), commit, rollback(4 tags, two of them equal to a write's tag)}. Random part: histories of length 200 over 3 registers with seeded tags. Oracle exactly as the statement: commit -> youngest write; rollback(s) -> youngest write with tag < s, unchanged if none; a tagged read never returns a value with a younger tag; these are required while the uncommitted writes of the register fit the slots (1 map, 10 ring, n raw ring), beyond that only commit and plain reads are checked. 'Youngest' among writes that arrive out of tag order is ambiguous in the statement (most recent in the history, or largest tag): either value is accepted, anything else is a violation. distinct_nontrivial = distinct histories executed."
}
func (propC15) Assumptions() []string {
	return []string{"'youngest write': when writes arrive out of tag order the statement can be read as the most recent write in the history or as the write with the largest tag; the oracle accepts either and nothing else (the two coincide whenever writes arrive in program order)", "the transaction map is read plainly only (its single user never passes a sequence id)"}
}
func (propC15) MinEvents(string) []string   { return []string{"histories", "rollbacks", "commits"} }
func (propC15) Exhaustive(tier string) bool { return true }

func c15Exec(mech string, ops []c15Op) string {
	switch mech {
	case "map":
		return c15Run(false, ops)
	case "rat":
		return c15Run(true, ops)
	case "ring2":
		return c15RunRing(2, ops)
	case "ring3":
		return c15RunRing(3, ops)
	}
	var n int
	fmt.Sscanf(mech, "ring%d", &n)
	return c15RunRing(n, ops)
}

func encodeC15(ops []c15Op) string {
	var sb strings.Builder
	for _, o := range ops {
		fmt.Fprintf(&sb, "%c:%d:%d ", o.K, o.Reg, o.Tag)
	}
	return sb.String()
}

func decodeC15(s string) []c15Op {
	var ops []c15Op
	for _, t := range strings.Fields(s) {
		p := strings.Split(t, ":")
		var o c15Op
		o.K = p[0][0]
		fmt.Sscan(p[1], &o.Reg)
		var tg int
		fmt.Sscan(p[2], &tg)
		o.Tag = int32(tg)
		ops = append(ops, o)
	}
	return ops
}

func (p propC15) RunCase(tier string, seed int64, idx int) (res caseResult) {
	res = caseResult{Stats: map[string]int64{}}
	info0 := c15InfoNotYoungest
	defer func() {
		res.Stats["info:tagged-reads-not-returning-the-youngest-eligible-write"] += c15InfoNotYoungest - info0
	}()
	off := 0
	report := func(mech string, ops []c15Op, msg string) {
		if len(res.Findings) < 2 {
			res.Findings = append(res.Findings, finding{Class: "speculative-state-mismatch", Site: mech, Detail: fmt.Sprintf("%s history %v: %s", mech, ops, msg), Extra: mech + " " + encodeC15(ops), Step: -1})
		}
	}
	for _, sh := range p.shards() {
		if idx < off+len(sh.alpha) {
			depth := p.depth(tier)
			var rec func(seq []c15Op)
			rec = func(seq []c15Op) {
				res.Runs++
				res.DistinctN++
				res.Stats["histories"]++
				last := seq[len(seq)-1]
				if last.K == 'c' {
					res.Stats["commits"]++
				}
				if last.K == 'b' {
					res.Stats["rollbacks"]++
				}
				if msg := c15Exec(sh.mech, seq); msg != "" {
					report(sh.mech, seq, msg)
					return
				}
				if len(seq) >= depth {
					return
				}
				for _, o := range sh.alpha {
					rec(append(append([]c15Op{}, seq...), o))
				}
			}
			rec([]c15Op{sh.alpha[idx-off]})
			if idx-off == 0 {
				res.Sample = map[string]any{"mechanism": sh.mech, "history": fmt.Sprint([]c15Op{{K: 'w', Reg: 0, Tag: 12}, {K: 'w', Reg: 0, Tag: 8}, {K: 'b', Tag: 9}, {K: 'p', Reg: 0}})}
			}
			return res
		}
		off += len(sh.alpha)
	}
	r := caseRand(seed, "C15", idx)
	for h := 0; h < 40; h++ {
		mech := []string{"map", "rat", fmt.Sprintf("ring%d", 2+r.Intn(9))}[r.Intn(3)]
		ops := c15Random(r, 200)
		res.Runs++
		res.DistinctN++
		res.Stats["histories"]++
		for _, o := range ops {
			if o.K == 'c' {
				res.Stats["commits"]++
			}
			if o.K == 'b' {
				res.Stats["rollbacks"]++
			}
		}
		if msg := c15Exec(mech, ops); msg != "" {
			report(mech, ops, msg)
		}
	}
	return res
}

func c15Random(r *rand.Rand, n int) []c15Op {
	var ops []c15Op
	tag := int32(4)
	for i := 0; i < n; i++ {
		// mostly program order, sometimes out of order
		switch r.Intn(10) {
		case 0, 1, 2, 3, 4:
			t := tag
			if r.Intn(4) == 0 {
				t = tag - int32(4*r.Intn(4))
			}
			tag += 4
			ops = append(ops, c15Op{K: 'w', Reg: r.Intn(3), Tag: t})
		case 5:
			ops = append(ops, c15Op{K: 'p', Reg: r.Intn(3)})
		case 6, 7:
			rt := tag - int32(4*r.Intn(6))
			if rt < 4 {
				rt = 4 // a sequence id of 0 means 'plain read' to the repository
			}
			ops = append(ops, c15Op{K: 'r', Reg: r.Intn(3), Tag: rt})
		case 8:
			ops = append(ops, c15Op{K: 'c'})
		default:
			ops = append(ops, c15Op{K: 'b', Tag: tag - int32(4*r.Intn(8)) + int32(r.Intn(2))})
		}
	}
	return ops
}

func (propC15) Replay(f finding) (bool, string) {
	fs := strings.SplitN(f.Extra, " ", 2)
	if len(fs) < 2 {
		return false, "no recorded history"
	}
	msg := c15Exec(fs[0], decodeC15(fs[1]))
	return msg != "", msg
}

func init() { register(propC15{}) }
