package main

// C16: word encoding is a little-endian bijection.

import (
	"encoding/binary"
	"fmt"

	rbytes "github.com/teivah/majorana/common/bytes"
)

type propC16 struct{}

func (propC16) ID() string { return "C16" }

const c16Chunk = 1 << 22 // values per case in the exhaustive sweep

func (propC16) NumCases(tier string) int {
	if tier == "thorough" {
		return (1 << 32) / c16Chunk // 1024 chunks, both directions each
	}
	return 64
}
func (propC16) Rule() string {
	return "BytesFromLowBits and I32FromBytes compared with encoding/binary little-endian, and both round trips. quick: all values with <= 2 bits set or cleared, all 2^16 values in each half-word position (other half 0, all-ones and random), and 4*10^6 seeded random values / byte quadruples; thorough: every one of the 2^32 values in both directions (exhaustive). A value is non-trivial when it has a byte with bit 7 set or is negative; distinct = distinct 32-bit value, deduplicated inside each chunk and summed over chunks (chunks are disjoint in the exhaustive sweep; in the quick tier the structured chunks share a handful of values and random chunks may collide with negligible probability)."
}
func (propC16) Assumptions() []string {
	return []string{"encoding/binary.LittleEndian is the reference for little-endian byte order"}
}
func (propC16) MinEvents(string) []string   { return []string{"values"} }
func (propC16) Exhaustive(tier string) bool { return tier == "thorough" }

func c16CheckValue(v uint32) string {
	b := rbytes.BytesFromLowBits(int32(v))
	var want [4]byte
	binary.LittleEndian.PutUint32(want[:], v)
	for i := 0; i < 4; i++ {
		if byte(b[i]) != want[i] {
			return fmt.Sprintf("BytesFromLowBits(%d): byte %d = %d, little-endian says %d", int32(v), i, byte(b[i]), want[i])
		}
	}
	back := rbytes.I32FromBytes(b[0], b[1], b[2], b[3])
	if uint32(back) != v {
		return fmt.Sprintf("I32FromBytes(BytesFromLowBits(%d)) = %d", int32(v), back)
	}
	return ""
}

func c16CheckQuad(q uint32) string {
	// q's bytes (little endian) are the quadruple
	var raw [4]byte
	binary.LittleEndian.PutUint32(raw[:], q)
	got := rbytes.I32FromBytes(int8(raw[0]), int8(raw[1]), int8(raw[2]), int8(raw[3]))
	if uint32(got) != binary.LittleEndian.Uint32(raw[:]) {
		return fmt.Sprintf("I32FromBytes(%d,%d,%d,%d) = %d, little-endian says %d", int8(raw[0]), int8(raw[1]), int8(raw[2]), int8(raw[3]), got, int32(binary.LittleEndian.Uint32(raw[:])))
	}
	b := rbytes.BytesFromLowBits(got)
	for i := 0; i < 4; i++ {
		if byte(b[i]) != raw[i] {
			return fmt.Sprintf("BytesFromLowBits(I32FromBytes(quad %08x)) byte %d = %d want %d", q, i, byte(b[i]), raw[i])
		}
	}
	return ""
}

func (p propC16) RunCase(tier string, seed int64, idx int) caseResult {
	res := caseResult{Stats: map[string]int64{}, Nontrivial: true, Hash: fmt.Sprintf("c16-%s-%d", tier, idx)}
	nontriv := int64(0)
	var seen map[uint32]bool
	if tier != "thorough" {
		seen = map[uint32]bool{}
	}
	check := func(v uint32) {
		res.Runs++
		res.Stats["values"]++
		if v&0x80808080 != 0 && (seen == nil || !seen[v]) {
			nontriv++
			if seen != nil {
				seen[v] = true
			}
		}
		msg := c16CheckValue(v)
		if msg == "" {
			msg = c16CheckQuad(v)
		}
		if msg != "" && len(res.Findings) < 3 {
			res.Findings = append(res.Findings, finding{Class: "codec-mismatch", Detail: msg, Extra: fmt.Sprint(v), Step: -1})
		}
	}
	if tier == "thorough" {
		lo := uint64(idx) * c16Chunk
		for v := lo; v < lo+c16Chunk; v++ {
			check(uint32(v))
		}
		if idx == 0 {
			res.Sample = map[string]any{"chunk": "values 0 .. 2^22-1 (and the same as byte quadruples)", "example": "0x80000000 -> bytes [0,0,0,-128]"}
		}
	} else {
		switch {
		case idx == 0:
			// <= 2 bits set or cleared
			for i := 0; i < 32; i++ {
				for j := i; j < 32; j++ {
					v := uint32(1)<<uint(i) | uint32(1)<<uint(j)
					check(v)
					check(^v)
				}
			}
			check(0)
			check(0xffffffff)
			res.Sample = map[string]any{"structured": "all values with <=2 bits set or cleared", "example_value": -2147483648, "example_bytes": []int{0, 0, 0, -128}}
		case idx <= 6:
			// all 2^16 values in a half-word position with three fillers
			pos := uint((idx - 1) % 2 * 16)
			fill := []uint32{0, 0xffffffff, 0xa5a5a5a5}[(idx-1)/2]
			for h := uint32(0); h < 1<<16; h++ {
				v := fill&^(uint32(0xffff)<<pos) | h<<pos
				check(v)
			}
		default:
			r := caseRand(seed, "C16", idx)
			for i := 0; i < 70000; i++ {
				check(r.Uint32())
			}
		}
	}
	res.Stats["values-with-high-bit-byte"] = nontriv
	res.DistinctN = nontriv
	res.Hash = ""
	return res
}

func (propC16) Replay(f finding) (bool, string) {
	var v uint32
	fmt.Sscan(f.Extra, &v)
	msg := c16CheckValue(v)
	if msg == "" {
		msg = c16CheckQuad(v)
	}
	if msg != "" {
		return true, msg
	}
	return false, fmt.Sprintf("value %d round-trips correctly", v)
}

func init() { register(propC16{}) }
