package main

// Properties decided by the differential engine.

import (
	"fmt"
	"math/rand"
	"strings"
)

type famSpec struct {
	Name     string
	Quick    int
	Thorough int
	Gen      func(r *rand.Rand, idx int) caseInput
	Opts     diffOpts
	Variants func(v string) bool // which variants this family runs on
	Cfg      func(r *rand.Rand, tier string, v string) []config
	AllCfg   bool // run on all 81 configurations even in the quick tier
	MinMax   bool // quick tier: the least and the most parallel configuration of each variant instead of a random one and the most parallel
}

type diffProp struct {
	id       string
	fams     []famSpec
	rule     string
	assume   []string
	minEv    []string
	postCase func(in caseInput, out *diffOut, res *caseResult)
}

func (p *diffProp) ID() string { return p.id }
func (p *diffProp) NumCases(tier string) int {
	n := 0
	for _, f := range p.fams {
		if tier == "thorough" {
			n += f.Thorough
		} else {
			n += f.Quick
		}
	}
	return n
}
func (p *diffProp) Rule() string              { return p.rule }
func (p *diffProp) Assumptions() []string     { return p.assume }
func (p *diffProp) MinEvents(string) []string { return p.minEv }
func (p *diffProp) Exhaustive(string) bool    { return false }

func (p *diffProp) family(tier string, idx int) (famSpec, int) {
	for _, f := range p.fams {
		n := f.Quick
		if tier == "thorough" {
			n = f.Thorough
		}
		if idx < n {
			return f, idx
		}
		idx -= n
	}
	panic("case index out of range")
}

// sampleConfigs: quick = every variant with 2 configurations (where it has more than
// one): the most parallel one and one other at random; thorough = all configurations.
func sampleConfigs(r *rand.Rand, tier string, ok func(v string) bool) []config {
	var out []config
	for _, v := range variantNames {
		if ok != nil && !ok(v) {
			continue
		}
		cs := configsOf(v)
		if tier == "thorough" || len(cs) <= 2 {
			out = append(out, cs...)
			continue
		}
		// the most parallel configuration (most in flight at once) plus one other at random
		i := len(cs) - 1
		j := r.Intn(len(cs) - 1)
		out = append(out, cs[j], cs[i])
	}
	return out
}

func (p *diffProp) RunCase(tier string, seed int64, idx int) caseResult {
	f, fi := p.family(tier, idx)
	r := caseRand(seed, p.id+"/"+f.Name, fi)
	in := f.Gen(r, fi)
	ct := tier
	if f.AllCfg {
		ct = "thorough"
	}
	cfgs := sampleConfigs(r, ct, f.Variants)
	if f.MinMax && ct != "thorough" {
		// the single-unit / single-core configuration isolates the memory hierarchy from the known
		// cross-unit findings (they carry minpar=2), so a cache defect is reported there directly
		cfgs = nil
		for _, v := range variantNames {
			if f.Variants != nil && !f.Variants(v) {
				continue
			}
			cs := configsOf(v)
			cfgs = append(cfgs, cs[0])
			if len(cs) > 1 {
				cfgs = append(cfgs, cs[len(cs)-1])
			}
		}
	}
	o := f.Opts
	o.Prop = p.id
	if tier == "thorough" && o.Repeats > 1 {
		o.Repeats *= 2
	}
	out := diffCase(in, cfgs, o)
	res := caseResult{Runs: int64(out.Runs), Discarded: out.Discarded, Nontrivial: out.Nontrivial, Stats: out.Stats, MaxRatio: out.MaxRatio, MaxTickRatio: out.MaxTickRatio}
	if res.Stats == nil {
		res.Stats = map[string]int64{}
	}
	res.Stats["cases:"+f.Name]++
	if out.Discarded {
		res.Stats["discarded:"+f.Name]++
		return res
	}
	res.Hash = in.hash()
	for i := range out.Findings {
		g := out.Findings[i]
		g.Family = f.Name
		cp := in
		g.Input = &cp
		out.Findings[i] = g
	}
	res.Findings = out.Findings
	if fi < 1 {
		res.Sample = map[string]any{"family": f.Name, "program": strings.Split(strings.TrimSpace(in.Src), "\n"), "initial_registers": nonzeroRegs(in.Regs), "memory_bytes": len(in.Mem), "configurations": fmt.Sprint(cfgs), "reference_steps": out.RefSteps}
	}
	if p.postCase != nil {
		p.postCase(in, &out, &res)
	}
	return res
}

func nonzeroRegs(regs [32]int32) map[string]int32 {
	m := map[string]int32{}
	for i, v := range regs {
		if v != 0 {
			m[regNames[i]] = v
		}
	}
	return m
}

func (p *diffProp) optsForFamily(name string) diffOpts {
	for _, f := range p.fams {
		if f.Name == name {
			return f.Opts
		}
	}
	return p.fams[0].Opts
}

func (p *diffProp) Replay(f finding) (bool, string) {
	if f.Input == nil {
		return false, "replay file has no input"
	}
	o := p.optsForFamily(f.Family)
	o.Prop = p.id
	// nondeterministic findings: try a few times
	tries := 12 // map-order dependent divergences do not show on every run
	var sb strings.Builder
	fmt.Fprintf(&sb, "replay %s on %s (recorded: %s %s %s)\nprogram:\n%s", p.id, f.Config, f.Class, f.Sub, f.Site, f.Input.Src)
	for t := 0; t < tries; t++ {
		out := diffCase(*f.Input, []config{f.Config}, o)
		if out.Discarded {
			fmt.Fprintf(&sb, "reference discards the input: %s\n", out.RefErr)
			return false, sb.String()
		}
		for _, g := range out.Findings {
			if t == 0 {
				fmt.Fprintf(&sb, "observed: %s %s %s: %s\n", g.Class, g.Sub, g.Site, g.Detail)
			}
			if g.Config.V == f.Config.V && g.Class == f.Class && subClass(g.Sub) == subClass(f.Sub) && g.Site == f.Site {
				return true, sb.String()
			}
		}
		if len(out.Findings) == 0 && t == 0 {
			fmt.Fprintf(&sb, "observed: no divergence\n")
		}
	}
	return false, sb.String()
}

func pipelined(v string) bool   { return variantClass(v) >= 4 }
func multiIssue(v string) bool  { return variantClass(v) >= 6 }
func cached(v string) bool      { return v != "mvp1" && v != "mvp2" }
func c10Variants(v string) bool { return variantClass(v) >= 4 }

const diffAssume = "the reference interpreter in harness/ref.go is the RV32IM sequential semantics of the supported subset (it is itself cross-checked against the table-driven oracle of C02)"

func init() {
	ls := diffOpts{Lockstep: true}
	register(&diffProp{
		id: "C01",
		fams: []famSpec{
			{Name: "regress", Quick: len(regressCases), Thorough: len(regressCases), Gen: famRegress, Opts: ls, AllCfg: true},
			{Name: "mixed", Quick: 400, Thorough: 20000, Gen: famMixed, Opts: ls},
		},
		rule:   "programs drawn from family 'mixed' (10-230 instructions, all 45 mnemonics, loads/stores over 0.5-8 KB, forward branches with shadows, j/jal/jalr call-return, down-counting loops, ret / fall-off / end label) with boundary-biased initial registers and random memory; each run on every variant (quick: per variant the most parallel configuration and one other at random, thorough: all 81). A case is non-trivial when the reference executes >= 5 instructions and has a taken branch, a memory access or a register written twice; distinct = distinct hash of program text + initial state.",
		assume: []string{diffAssume, "logical tick budget 8*309*(executed+length+64) loop iterations decides termination"},
		minEv:  []string{"executed", "flushes", "forwards"},
	})
	register(&diffProp{
		id: "C03",
		fams: []famSpec{
			// every unit count: which instructions execute in the last cycles before a late branch resolves depends on it
			{Name: "shadow", Quick: 1000, Thorough: 20000, Gen: famShadow, Opts: ls, Variants: pipelined, AllCfg: true},
			{Name: "mixed", Quick: 200, Thorough: 5000, Gen: famMixed, Opts: ls, Variants: pipelined},
		},
		rule:   "family 'shadow' (on every configuration, also in the quick tier): prefix (optionally a cache-missing load feeding the branch) . conditional branch or j/jal/jalr . 1-6 shadow instructions (ALU writes to live registers, stores hit/miss, loads incl. out-of-bounds addresses, jal link writes, div by zero) . join . suffix copying registers/bytes to observable places; 3 of 4 cases make the branch taken; every fourth case has two branches in flight (a late outer branch, a slow wrong-path register writer, a younger branch that resolves at once), half of the cases have 1-3 independent missing loads and 0-6 pad instructions ahead of the branch so that shadow instructions execute in the last cycles before it resolves; plus 200 / 5000 'mixed' programs (jumps, shared subroutines returning through jalr). Oracle: final state + lockstep + no store performed by a squashed instruction. Non-trivial/distinct as in C01.",
		assume: []string{diffAssume},
		minEv:  []string{"squashed", "squashed-executed"},
	})
	register(&diffProp{
		id: "C04",
		fams: []famSpec{
			{Name: "regdep", Quick: 500, Thorough: 10000, Gen: famRegdep, Opts: diffOpts{Lockstep: true, Repeats: 5}, Variants: pipelined},
		},
		rule:   "family 'regdep': 2-4 data registers, 8-40 instructions of chains, fans, WAW pairs, WAR pairs, slow (load) and fast writers of one register in both orders, consumers behind two in-flight writers; loads only (no stores, no branches), so every hazard is a register hazard. Each configuration is run 5 times (quick) / 10 times (thorough) and all repetitions must agree. Oracle: per-instruction lockstep + final registers.",
		assume: []string{diffAssume},
		minEv:  []string{"forwards", "executed"},
	})
	c04 := registry["C04"].(*diffProp)
	_ = c04
	register(&diffProp{
		id: "C05",
		fams: []famSpec{
			{Name: "memwalk", Quick: 300, Thorough: 4000, Gen: famMemwalk, Opts: ls, Variants: cached, MinMax: true},
		},
		rule:   "family 'memwalk': 8-16 KB memories, strided walking loops (strides 4..260, up to 65 iterations), ping-pong over 17-24 lines, store/evict/reload, random accesses at every line-relative offset, byte/half/word mix, XOR checksum of every loaded value. Oracle: value returned by each load (lockstep) + final memory + final registers.",
		assume: []string{diffAssume},
		minEv:  []string{"executed"},
	})
	register(&diffProp{
		id: "C07",
		fams: []famSpec{
			{Name: "regress", Quick: len(regressCases), Thorough: len(regressCases), Gen: famRegress, Opts: diffOpts{TermOnly: true}, AllCfg: true},
			{Name: "regress-err", Quick: len(regressErrCases), Thorough: len(regressErrCases), Gen: famRegressErr, Opts: diffOpts{ExpectErr: true}, AllCfg: true},
			{Name: "stress-term", Quick: 500, Thorough: 25000, Gen: famStressTerm, Opts: diffOpts{TermOnly: true}},
			{Name: "mixed", Quick: 100, Thorough: 5000, Gen: famMixed, Opts: diffOpts{TermOnly: true}},
			{Name: "errpath", Quick: 200, Thorough: 10000, Gen: famErrpath, Opts: diffOpts{ExpectErr: true}},
		},
		rule:   "families 'stress-term' (store then load of one line, back-to-back taken branches, store bursts, loops with misses, jump chains, ends on ret / end label / mid store burst, ra != 0 at the end), 'mixed', and 'errpath' (div/rem by zero or undefined label reached first / late / in a loop / right after a taken branch / completing during a flush drain). Verdicts: tick budget 8*309*(executed+length+64) loop iterations exceeded, Go panic, worker killed, cycles above the same bound; for errpath anything but a non-nil error. Non-trivial as in C01 (errpath: reference reaches the defined error).",
		assume: []string{diffAssume, "termination is decided as bounded progress: a run that needs more than 8*309*(executed+length+64) loop iterations is reported as non-terminating; the returned cycle count must stay below 8*309*(executed+length+64)"},
		minEv:  []string{"ticks"},
	})
	register(&diffProp{
		id: "C09",
		fams: []famSpec{
			{Name: "regress", Quick: len(regressCases), Thorough: len(regressCases), Gen: famRegress, Opts: ls, Variants: pipelined, AllCfg: true},
			{Name: "tails", Quick: 600, Thorough: 30000, Gen: famTails, Opts: ls, Variants: pipelined},
		},
		rule:   "family 'tails': short body + controlled tail of 1-5 instructions (missing load, hitting load, store miss, store hit, ALU op depending on a load, li, several stores) directly before ret / the end / a jump or taken branch to an end label. Oracle: final state + every reference instruction executed exactly once (lockstep).",
		assume: []string{diffAssume},
		minEv:  []string{"executed"},
	})
	register(&diffProp{
		id: "C10",
		fams: []famSpec{
			{Name: "memdep", Quick: 600, Thorough: 30000, Gen: famMemdep, Opts: ls, Variants: c10Variants},
			{Name: "hot", Quick: 200, Thorough: 10000, Gen: famHot, Opts: ls, Variants: multiIssue},
		},
		rule:   "family 'memdep': store->load, load->store, store->store and triples on the same byte / word / line at distance 1..8 through different address registers holding the same address (no register dependence), mixed widths, target line pre-touched or not; family 'hot': random programs whose accesses fall on 1-4 hot lines. Oracle: the bytes each load returned (lockstep) + final memory.",
		assume: []string{diffAssume},
		minEv:  []string{"executed"},
	})
}
