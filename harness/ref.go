package main

// Independent reference: own parser for the generated assembly subset and a
// sequential RV32IM interpreter with a per-instruction trace. Nothing here
// imports the repository.

import (
	"fmt"
	"strconv"
	"strings"
)

type rIns struct {
	Op    string
	Rd    int
	Rs1   int
	Rs2   int
	Imm   int32
	Label string
	Text  string
}

var regNames = []string{"zero", "ra", "sp", "gp", "tp", "t0", "t1", "t2", "s0", "s1", "a0", "a1", "a2", "a3", "a4", "a5", "a6", "a7", "s2", "s3", "s4", "s5", "s6", "s7", "s8", "s9", "s10", "s11", "t3", "t4", "t5", "t6"}

func regIdx(s string) int {
	s = strings.TrimPrefix(strings.TrimSpace(s), "$")
	for i, n := range regNames {
		if n == s {
			return i
		}
	}
	panic("bad reg " + s)
}

type rProg struct {
	Ins    []rIns
	Labels map[string]int32
}

func refParse(src string) rProg {
	p := rProg{Labels: map[string]int32{}}
	for _, line := range strings.Split(src, "\n") {
		line = strings.TrimSpace(line)
		if line == "" || line[0] == '#' {
			continue
		}
		if strings.HasSuffix(line, ":") && !strings.Contains(line, " ") {
			p.Labels[line[:len(line)-1]] = int32(4 * len(p.Ins))
			continue
		}
		sp := strings.Index(line, " ")
		op := line
		rest := ""
		if sp >= 0 {
			op = line[:sp]
			rest = line[sp+1:]
		}
		if i := strings.Index(rest, "#"); i >= 0 {
			rest = strings.TrimSpace(rest[:i])
		}
		op = strings.ToLower(op)
		var a []string
		if rest != "" {
			for _, x := range strings.Split(rest, ",") {
				a = append(a, strings.TrimSpace(x))
			}
		}
		imm := func(s string) int32 {
			v, err := strconv.ParseInt(s, 10, 32)
			if err != nil {
				panic(err)
			}
			return int32(v)
		}
		offreg := func(s string) (int32, int) {
			i := strings.Index(s, "(")
			return imm(strings.TrimSpace(s[:i])), regIdx(s[i+1 : len(s)-1])
		}
		in := rIns{Op: op, Text: line}
		switch op {
		case "add", "sub", "and", "or", "xor", "sll", "srl", "sra", "slt", "sltu", "mul", "div", "rem":
			in.Rd, in.Rs1, in.Rs2 = regIdx(a[0]), regIdx(a[1]), regIdx(a[2])
		case "addi", "andi", "ori", "xori", "slli", "srli", "srai", "slti", "jalr":
			in.Rd, in.Rs1, in.Imm = regIdx(a[0]), regIdx(a[1]), imm(a[2])
		case "lui", "auipc", "li":
			in.Rd, in.Imm = regIdx(a[0]), imm(a[1])
		case "beq", "bne", "blt", "bge", "ble", "bltu", "bgeu":
			in.Rs1, in.Rs2, in.Label = regIdx(a[0]), regIdx(a[1]), a[2]
		case "beqz", "bnez":
			in.Rs1, in.Label = regIdx(a[0]), a[1]
		case "j":
			in.Label = a[0]
		case "jal":
			in.Rd, in.Label = regIdx(a[0]), a[1]
		case "lb", "lh", "lw":
			in.Rd = regIdx(a[0])
			in.Imm, in.Rs1 = offreg(a[1])
		case "sb", "sw":
			in.Rs2 = regIdx(a[0])
			in.Imm, in.Rs1 = offreg(a[1])
		case "sh":
			in.Rs2, in.Imm, in.Rs1 = regIdx(a[0]), imm(a[1]), regIdx(a[2])
		case "mv":
			in.Rd, in.Rs1 = regIdx(a[0]), regIdx(a[1])
		case "nop", "ret":
		default:
			panic("bad op " + op)
		}
		p.Ins = append(p.Ins, in)
	}
	return p
}

// insKind classification used by oracles and generators.
func isLoad(op string) bool  { return op == "lb" || op == "lh" || op == "lw" }
func isStore(op string) bool { return op == "sb" || op == "sh" || op == "sw" }
func isCondBranch(op string) bool {
	switch op {
	case "beq", "bne", "blt", "bge", "ble", "bltu", "bgeu", "beqz", "bnez":
		return true
	}
	return false
}
func isJump(op string) bool { return op == "j" || op == "jal" || op == "jalr" }
func accessSize(op string) int32 {
	switch op {
	case "lb", "sb":
		return 1
	case "lh", "sh":
		return 2
	case "lw", "sw":
		return 4
	}
	return 0
}

// readsRegs / writesReg per the ISA (zero never counts).
func (in rIns) srcRegs() []int {
	var r []int
	add := func(x int) {
		if x != 0 {
			for _, y := range r {
				if y == x {
					return
				}
			}
			r = append(r, x)
		}
	}
	switch in.Op {
	case "add", "sub", "and", "or", "xor", "sll", "srl", "sra", "slt", "sltu", "mul", "div", "rem",
		"beq", "bne", "blt", "bge", "ble", "bltu", "bgeu", "sb", "sh", "sw":
		add(in.Rs1)
		add(in.Rs2)
	case "addi", "andi", "ori", "xori", "slli", "srli", "srai", "slti", "jalr", "beqz", "bnez", "lb", "lh", "lw", "mv":
		add(in.Rs1)
	}
	return r
}

func (in rIns) dstReg() int {
	switch in.Op {
	case "add", "sub", "and", "or", "xor", "sll", "srl", "sra", "slt", "sltu", "mul", "div", "rem",
		"addi", "andi", "ori", "xori", "slli", "srli", "srai", "slti", "jalr", "lui", "auipc", "li", "jal", "lb", "lh", "lw", "mv":
		return in.Rd
	}
	return 0
}

// evalResult is the architectural effect of one instruction.
type evalResult struct {
	Err      string
	WroteReg bool // destination register (may be zero => no change)
	Rd       int
	Val      int32
	Taken    bool // pc change
	Next     int32
	Ret      bool
	Addr     int32 // memory address for loads/stores
	Size     int32
	Store    []int8 // stored bytes (little endian), len Size
}

// evalIns computes the effect of in at pc with operand values a (rs1) and b
// (rs2). loaded holds the bytes at Addr for loads (ignored otherwise).
// Labels are resolved through labels.
func evalIns(in rIns, pc int32, a, b int32, loaded []int8, labels map[string]int32) evalResult {
	r := evalResult{Next: pc + 4, Rd: in.Rd}
	set := func(v int32) {
		r.WroteReg = true
		r.Val = v
	}
	jump := func() {
		t, ok := labels[in.Label]
		if !ok {
			r.Err = "label"
			return
		}
		r.Taken = true
		r.Next = t
	}
	b2i := func(c bool) int32 {
		if c {
			return 1
		}
		return 0
	}
	switch in.Op {
	case "add":
		set(a + b)
	case "sub":
		set(a - b)
	case "and":
		set(a & b)
	case "or":
		set(a | b)
	case "xor":
		set(a ^ b)
	case "sll":
		set(int32(uint32(a) << (uint32(b) & 31)))
	case "srl":
		set(int32(uint32(a) >> (uint32(b) & 31)))
	case "sra":
		set(a >> (uint32(b) & 31))
	case "slt":
		set(b2i(a < b))
	case "sltu":
		set(b2i(uint32(a) < uint32(b)))
	case "mul":
		set(a * b)
	case "div":
		if b == 0 {
			r.Err = "div0"
			return r
		}
		if a == -2147483648 && b == -1 {
			set(a)
		} else {
			set(a / b)
		}
	case "rem":
		if b == 0 {
			r.Err = "rem0"
			return r
		}
		if a == -2147483648 && b == -1 {
			set(0)
		} else {
			set(a % b)
		}
	case "addi":
		set(a + in.Imm)
	case "andi":
		set(a & in.Imm)
	case "ori":
		set(a | in.Imm)
	case "xori":
		set(a ^ in.Imm)
	case "slli":
		set(int32(uint32(a) << (uint32(in.Imm) & 31)))
	case "srli":
		set(int32(uint32(a) >> (uint32(in.Imm) & 31)))
	case "srai":
		set(a >> (uint32(in.Imm) & 31))
	case "slti":
		set(b2i(a < in.Imm))
	case "lui":
		set(in.Imm << 12)
	case "auipc":
		set(pc + (in.Imm << 12))
	case "li":
		set(in.Imm)
	case "mv":
		set(a)
	case "nop":
	case "ret":
		r.Ret = true
	case "beq":
		if a == b {
			jump()
		}
	case "bne":
		if a != b {
			jump()
		}
	case "blt":
		if a < b {
			jump()
		}
	case "bge":
		if a >= b {
			jump()
		}
	case "ble":
		if a <= b {
			jump()
		}
	case "bltu":
		if uint32(a) < uint32(b) {
			jump()
		}
	case "bgeu":
		if uint32(a) >= uint32(b) {
			jump()
		}
	case "beqz":
		if a == 0 {
			jump()
		}
	case "bnez":
		if a != 0 {
			jump()
		}
	case "j":
		jump()
	case "jal":
		jump()
		if r.Err == "" {
			set(pc + 4)
		}
	case "jalr":
		set(pc + 4)
		r.Taken = true
		r.Next = a + in.Imm
	case "lb":
		r.Addr, r.Size = a+in.Imm, 1
		if len(loaded) >= 1 {
			set(int32(loaded[0]))
		}
	case "lh":
		r.Addr, r.Size = a+in.Imm, 2
		if len(loaded) >= 2 {
			set(int32(int16(uint16(uint8(loaded[0])) | uint16(uint8(loaded[1]))<<8)))
		}
	case "lw":
		r.Addr, r.Size = a+in.Imm, 4
		if len(loaded) >= 4 {
			set(int32(uint32(uint8(loaded[0])) | uint32(uint8(loaded[1]))<<8 | uint32(uint8(loaded[2]))<<16 | uint32(uint8(loaded[3]))<<24))
		}
	case "sb":
		r.Addr, r.Size = a+in.Imm, 1
		r.Store = []int8{int8(b)}
	case "sh":
		r.Addr, r.Size = a+in.Imm, 2
		r.Store = []int8{int8(b), int8(b >> 8)}
	case "sw":
		r.Addr, r.Size = a+in.Imm, 4
		r.Store = []int8{int8(b), int8(b >> 8), int8(b >> 16), int8(b >> 24)}
	default:
		panic(in.Op)
	}
	return r
}

type refStep struct {
	Idx    int
	Pc     int32
	A, B   int32
	Loaded []int8
	Res    evalResult
}

type refState struct {
	Regs     [32]int32
	Mem      []int8
	Steps    int
	Err      string // "" ok; "div0"/"rem0"/"label" defined errors; "nonterminating", "bad access", "bad pc" => discard
	Trace    []refStep
	InitRegs [32]int32
	InitMem  []int8
}

// refRun executes p sequentially. Accesses must be naturally aligned and in
// bounds, otherwise the run is marked ill-formed (Err "bad access ...").
func refRun(p rProg, regs [32]int32, mem []int8, maxSteps int, keepTrace bool) *refState {
	return refRunU(p, regs, mem, maxSteps, keepTrace, false)
}

// refRunU is refRun with optional support for misaligned (still in-bounds) accesses; used only
// by the cycle-accounting check on the unpipelined variants, which access memory byte by byte.
func refRunU(p rProg, regs [32]int32, mem []int8, maxSteps int, keepTrace bool, allowUnaligned bool) *refState {
	st := &refState{Regs: regs, Mem: append([]int8(nil), mem...), InitRegs: regs, InitMem: mem}
	st.Regs[0] = 0
	st.InitRegs[0] = 0
	pc := int32(0)
	for {
		if pc < 0 || pc%4 != 0 {
			st.Err = fmt.Sprintf("bad pc %d", pc)
			return st
		}
		idx := int(pc / 4)
		if idx >= len(p.Ins) {
			return st
		}
		if st.Steps >= maxSteps {
			st.Err = "nonterminating"
			return st
		}
		st.Steps++
		in := p.Ins[idx]
		a, b := st.Regs[in.Rs1], st.Regs[in.Rs2]
		var loaded []int8
		if sz := accessSize(in.Op); sz != 0 {
			addr := a + in.Imm
			if addr < 0 || int(addr)+int(sz) > len(st.Mem) || (addr%sz != 0 && !allowUnaligned) {
				st.Err = fmt.Sprintf("bad access %d/%d", addr, sz)
				return st
			}
			if isLoad(in.Op) {
				loaded = append([]int8(nil), st.Mem[addr:addr+sz]...)
			}
		}
		res := evalIns(in, pc, a, b, loaded, p.Labels)
		if keepTrace {
			st.Trace = append(st.Trace, refStep{Idx: idx, Pc: pc, A: a, B: b, Loaded: loaded, Res: res})
		}
		if res.Err != "" {
			st.Err = res.Err
			return st
		}
		if res.Ret {
			return st
		}
		if res.WroteReg && in.Rd != 0 {
			st.Regs[in.Rd] = res.Val
		}
		if res.Store != nil {
			copy(st.Mem[res.Addr:], res.Store)
		}
		pc = res.Next
	}
}
