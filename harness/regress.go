package main

// Regression witnesses of defects fixed in the repository ("fixed:" lines of
// KNOWN_FINDINGS.txt). Every quick run of C01/C07/C09 executes all of them on
// every variant; they suppress nothing.

import "math/rand"

type regressCase struct {
	Name string
	Src  string
	Regs map[string]int32
}

// regressMem: memory size of the cases that need more than 4096 bytes.
var regressMem = map[string]int{"two-cores-evict-one-L3-line": 16384}

var regressCases = []regressCase{
	{"D1-negative-result-mvp4", "li t0, -5\naddi t1, t0, 0\nsub t2, zero, t1\n", nil},
	{"D2-unsigned-compare", "li t0, -1\nli t1, 1\nsltu t2, t1, t0\nbltu t1, t0, L\nli a0, 9\nL:\nbgeu t1, t0, M\nli a1, 9\nM:\n", nil},
	{"D2-shifts", "li t0, -8\nli t1, 33\nsrl t2, t0, t1\nsra t3, t0, t1\nsll t4, t0, t1\nsrli a0, t0, 1\nli t1, -1\nsrl a1, t0, t1\n", nil},
	{"D2-lh-sign-and-interlock", "li t0, -2\nsh t0, 0, s0\nlh t1, 0(s0)\naddi t2, t1, 1\n", map[string]int32{"s0": 128}},
	{"D2-jal-link", "jal t0, L\nli a0, 1\nL:\nmv a1, ra\nmv a2, t0\n", map[string]int32{"ra": 0}},
	{"D3-bltu-taken", "li t0, 1\nli t1, 2\nbltu t0, t1, L\nli a0, 7\nL:\nli a1, 3\n", nil},
	{"D4-chained-forward", "addi t0, zero, 1\naddi t1, t0, 1\naddi t2, t1, 1\naddi t3, t2, 1\naddi t4, t3, 1\n", nil},
	{"D5-branch-to-end-label", "li a0, 1\nbeq zero, zero, END\nli a0, 2\nEND:\n", nil},
	{"D6-unaligned-line-base", "lw t0, 0(s0)\nsw t1, -4(s0)\nlw t2, -4(s0)\nlw t3, 60(s0)\nsw t1, 64(s0)\nlw t4, 64(s0)\n", map[string]int32{"s0": 100, "t1": 77}},
	{"D7-dirty-eviction", "lw t0, 0(s0)\nsw t1, 0(s0)\nli s1, 1024\nli s3, 20\nL:\nlw t2, 0(s1)\naddi s1, s1, 64\naddi s3, s3, -1\nbnez s3, L\nlw t3, 0(s0)\n", map[string]int32{"s0": 128, "t1": 4242}},
	{"D8-store-miss-then-load", "sw t0, 0(s0)\nlw t1, 4(s0)\nlw t2, 0(s0)\n", map[string]int32{"s0": 256, "t0": 31}},
	{"D10-ra-nonzero-at-end", "li ra, 8\nli a0, 1\nadd a1, a1, a0\n", nil},
	{"D11-result-behind-busy-write-unit", "sw t0, 0(s0)\nli a0, 5\nret\n", map[string]int32{"s0": 256, "t0": 9}},
	{"G4-two-stores-then-taken-branch", "sw t3, 60(s2)\nsw t1, 0(s2)\nnop\nbgeu t3, t3, L9\nsltu zero, t3, t0\nL9:\n", map[string]int32{"s2": 496, "t3": 812, "t1": 631}},
	{"F2-squashed-load-then-load-same-line", "mul zero, t2, t4\nblt t4, t0, L1\nlw t1, 28(s2)\nL1:\nlw t0, 12(s2)\n", map[string]int32{"s2": 392, "t4": 0, "t0": 5}},
	{"F3-load-then-ret", "lw t0, 0(s0)\nret\n", map[string]int32{"s0": 128}},
	{"same-cycle-flushes-oldest-wins", "and t3, zero, t0\nsrl zero, a0, t2\nli s3, 3\nL8:\nli a2, 1\nlb t1, 47(s0)\nand a1, zero, t1\nsh t3, 52, s0\naddi s3, s3, -1\nbnez s3, L8\njal a2, L10\nL10:\n", map[string]int32{"s0": 2384, "t0": 820, "a0": 5, "t2": 27}},
	{"text-after-ret", "li a0, 1\nlw t0, 0(s0)\nret\nli a0, 2\nadd t0, t0, t0\nsw a0, 4(s0)\n", map[string]int32{"s0": 128}},
	{"stale-snoop-command-after-flush", "addi t2, t4, -4\nlw t4, 0(s2)\nli a1, -30\nlw a2, 1476(zero)\naddi t4, zero, 36\naddi t4, zero, 81\naddi t4, zero, 77\naddi t4, zero, 70\naddi t4, zero, 63\nlw a2, 1280(zero)\naddi t4, zero, 28\naddi t4, zero, 91\naddi t4, zero, 41\naddi t4, zero, 37\naddi t4, zero, 38\naddi t4, zero, 80\nlw a2, 1536(zero)\nlw a0, 0(s0)\nbltu a0, a1, L1\naddi t0, t4, 47\nsub t4, t1, t3\nlw t3, 8(s2)\nL1:\nsw t0, 64(s2)\nsw t3, 76(s2)\nsw t4, 80(s2)\nsw a0, 84(s2)\nlw a2, 0(s1)\nlw t4, 4(s2)\nret\n", map[string]int32{"a0": -369, "s0": 256, "s1": 536, "s2": 1024, "t0": 820, "t1": 368, "t2": -56, "t3": -426, "t4": -295}},
	{"two-cores-evict-one-L3-line", "li s0, 4872\nli s3, 50\nL1:\nsh a0, 4, s0\naddi s0, s0, 68\naddi s3, s3, -1\nbnez s3, L1\nsh a0, 4, s1\nli s0, 4628\nsb a0, -8(s0)\nli s1, 9056\nlb t0, 10(s1)\nxor a0, a0, t0\nli s2, 11192\nsw a0, -4(s2)\nli s0, 1420\nsh a0, -10, s0\nli s0, 2200\nsw a0, -28(s0)\nlw t2, 0(s0)\n", map[string]int32{"s0": 10552, "s1": 8856, "s2": 6500, "t0": 1, "t1": 88, "t3": 372, "t4": 8192}},
	{"stale-forward-wired-on-full-bus", "sh t1, 6, s0\nsh zero, -2, s2\nli t3, -82\nslti t3, t0, 1097\nsub t1, a0, t2\nlw t3, -28(s0)\nsw t3, -24(s1)\n", map[string]int32{"t0": 33554432, "t1": 967, "t2": 20561, "s0": 1768, "s1": 2964, "a0": -2147483648, "s2": 2960, "t3": 1, "t4": -1}},
	{"forward-from-older-of-two-writers", "li t3, 195\nandi t3, t0, -3\nsh t3, -58, s1\n", map[string]int32{"t0": -116, "s1": 256}},
	{"slow-older-writer-lands-last", "lw t1, 28(s1)\naddi t1, t0, 22\nadd t1, t1, t1\n", map[string]int32{"t0": 20, "s1": 256}},
	{"parked-reader-then-younger-writer", "lw t5, 0(zero)\nadd t6, t5, t1\naddi t0, zero, 3\nadd t1, t0, zero\n", map[string]int32{"t1": 100}},
	{"branch-to-next-instruction", "li s3, 3\nL7:\nlb t1, -18(s2)\nbnez t1, L8\nL8:\naddi s3, s3, -1\nbnez s3, L7\n", map[string]int32{"s2": 672}},
	{"F3-load-add-ret", "lw t0, 0(s0)\nlw t1, 64(s0)\nadd t2, t0, t1\nret\n", map[string]int32{"s0": 128}},
}

// regressErrCases: the executed path reaches a defined error.
var regressErrCases = []regressCase{
	{"D2-rem-by-zero", "li t0, 5\nrem t1, t0, zero\n", nil},
	{"D12-error-during-flush-drain", "lw a0, 0(s0)\nsub a0, a0, a0\ndiv a1, a2, a0\nbeq zero, zero, L\nli t0, 1\nL:\nli t1, 2\n", map[string]int32{"s0": 128}},
}

func regressInput(c regressCase) caseInput {
	n := regressMem[c.Name]
	if n == 0 {
		n = 4096
	}
	in := caseInput{Src: c.Src, Mem: make([]int8, n)}
	for i := range in.Mem {
		in.Mem[i] = int8(i*7 + 1)
	}
	for k, v := range c.Regs {
		in.Regs[regIdx(k)] = v
	}
	return in
}

func famRegress(r *rand.Rand, idx int) caseInput {
	return regressInput(regressCases[idx%len(regressCases)])
}

func famRegressErr(r *rand.Rand, idx int) caseInput {
	return regressInput(regressErrCases[idx%len(regressErrCases)])
}
