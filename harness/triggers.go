package main

// Trigger patterns: properties of the *reference* execution of a case that a
// known design gap needs in order to manifest. A divergence is attributed to
// a known finding only if the case has the finding's trigger.

import "sort"

const trigWindow = 16

func caseTriggers(p rProg, ref *refState) []string {
	t := map[string]bool{}
	lastWrite := map[int]int{}
	lastRead := map[int]int{}
	type acc struct {
		store bool
	}
	lineStore := map[int32]bool{}
	lineAccess := map[int32]int{}
	n := len(ref.Trace)
	lastMem := -1000
	lastLoad := -1000
	for k, s := range ref.Trace {
		in := p.Ins[s.Idx]
		for _, r := range in.srcRegs() {
			lastRead[r] = k
		}
		if d := in.dstReg(); d != 0 && s.Res.WroteReg {
			if j, ok := lastWrite[d]; ok && k-j <= trigWindow {
				t["waw"] = true
			}
			if j, ok := lastRead[d]; ok && k-j <= trigWindow && j != k {
				t["war"] = true
			}
			lastWrite[d] = k
		}
		if s.Res.Size != 0 {
			line := s.Res.Addr / 64
			l2 := (s.Res.Addr + s.Res.Size - 1) / 64
			for _, ln := range []int32{line, l2} {
				if isStore(in.Op) {
					if lineAccess[ln] > 0 {
						t["line-reuse-with-store"] = true
					}
					lineStore[ln] = true
				} else if lineStore[ln] {
					t["line-reuse-with-store"] = true
				}
				lineAccess[ln]++
				if ln == l2 {
					break
				}
			}
			if k-lastMem <= trigWindow {
				t["mem-ops-close"] = true
			}
			lastMem = k
			if isLoad(in.Op) {
				lastLoad = k
			}
			if isStore(in.Op) {
				t["has-store"] = true
			}
		}
		if s.Res.Taken {
			t["taken-transfer"] = true
			if k-lastMem <= trigWindow {
				t["mem-before-taken"] = true
			}
			// static shadow of a taken conditional branch
			if isCondBranch(in.Op) {
				for j := s.Idx + 1; j < len(p.Ins) && j <= s.Idx+8; j++ {
					// the wrong path runs on past the branch target when the target lies ahead
					op := p.Ins[j].Op
					if isStore(op) {
						t["shadow-store"] = true
					}
					if isLoad(op) {
						t["shadow-load"] = true
					}
					if op == "div" || op == "rem" {
						t["shadow-div"] = true
					}
				}
			}
		}
	}
	_ = lastLoad
	if n-1-lastMem <= trigWindow && lastMem >= 0 {
		t["mem-near-exit"] = true
	}
	out := make([]string, 0, len(t))
	for k := range t {
		out = append(out, k)
	}
	sort.Strings(out)
	return out
}
