#!/bin/bash
# Runs every quick check once at the default seed (regenerates evidence/*.json); prints one line per check.
cd "$(dirname "${BASH_SOURCE[0]}")/.."
rc_all=0
for c in C01 C02 C03 C04 C05 C06 C07 C08 C09 C10 C11 C12 C13 C14 C15 C16; do
  ./check $c -tier quick > /tmp/allq.$c.log 2>&1; rc=$?
  [ $rc -ne 0 ] && rc_all=1
  echo "rc=$rc $(tail -1 /tmp/allq.$c.log | cut -c1-140)"
  grep "^VIOLATION\|^UNHEALTHY\|^INCONCLUSIVE\|^note:" /tmp/allq.$c.log | head -5 | cut -c1-200
done
exit $rc_all
