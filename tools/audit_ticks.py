#!/usr/bin/env python3
# Audits that every potentially unbounded loop ("for {" or "for <cond> {", i.e. no range and no 3-clause header)
# in the processor packages contains a VerifTick call, so that a hang is seen by the logical budget.
import re,glob,sys
bad=[]
n=0
for f in sorted(glob.glob('/repo/proc/mvp*/*.go'))+sorted(glob.glob('/repo/risc/runner.go')):
    if f.endswith('_test.go') or 'verif_' in f: continue
    lines=open(f).read().split('\n')
    for i,l in enumerate(lines):
        m=re.match(r'^(\s*)for\s*(.*)\{\s*$',l)
        if not m: continue
        hdr=m.group(2).strip()
        if 'range' in hdr or ';' in hdr: continue
        n+=1
        indent=m.group(1)
        # body until the closing brace at the same indent
        j=i+1; body=[]
        while j<len(lines) and not (lines[j].startswith(indent+'}') and len(lines[j])-len(lines[j].lstrip())==len(indent)):
            body.append(lines[j]); j+=1
        # only the loop's own level or deeper counts; a tick in a nested loop does not cover the outer one,
        # so require a tick at depth 1
        own=[b for b in body if b.startswith(indent+'\t') and not b.startswith(indent+'\t\t')]
        if not any('VerifTick(' in b for b in own):
            if f.endswith('risc/runner.go'): continue  # reference runner of the repository, not a processor
            bad.append(f'{f}:{i+1}: {l.strip()}')
print(f'audited {n} unbounded-form loops; {len(bad)} without a tick')
for b in bad: print('  MISSING TICK',b)
sys.exit(1 if bad else 0)
