#!/bin/bash
# Runs the repository's own suite with the verif guard OFF and checks that every
# test recorded as stable-pass in /root/.vp/BASELINE.json still passes.
export GOFLAGS=-mod=mod GOPROXY=off GOSUMDB=off GOTOOLCHAIN=local
OUT=${1:-/tmp/baseline_off.$$.json}
cd "${VERIF_REPO:-/repo}" || exit 2
go test -json -vet=off -count=1 -timeout 90m ./... > "$OUT" 2>/dev/null
python3 - "$OUT" <<'PY'
import json,sys
base=json.load(open('/root/.vp/BASELINE.json'))
want=set(base['stable_pass'])
res={}
for line in open(sys.argv[1]):
    try: e=json.loads(line)
    except Exception: continue
    if e.get('Action') in('pass','fail','skip') and e.get('Test'):
        res[e['Package']+'::'+e['Test']]=e['Action']
missing=[t for t in want if res.get(t)!='pass']
failed=[t for t,a in res.items() if a=='fail']
print(f"baseline stable_pass={len(want)} passing_now={sum(1 for t in want if res.get(t)=='pass')} not_passing={len(missing)} failing_total={len(failed)}")
for t in sorted(missing)[:20]: print("  NOT PASSING:",t,res.get(t))
for t in sorted(failed)[:20]: print("  failing:",t)
sys.exit(1 if missing else 0)
PY
rc=$?
rm -f "$OUT"
exit $rc
