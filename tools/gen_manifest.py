#!/usr/bin/env python3
# Generates /verif/MANIFEST.json from the table below (kept in one place so that it stays valid).
import json, subprocess, sys

def repo_commits(prefix):
    out = subprocess.run(['git','-C','/repo','log','--format=%h %s'],capture_output=True,text=True).stdout.splitlines()
    return [l.split()[0] for l in out if l.split(' ',1)[1].startswith(prefix)]

DIFF = "differential runtime monitoring: generated programs run on the real simulator under the verif hooks; oracle = independent sequential RV32IM interpreter, per-instruction lockstep comparison of the hooked commit log, final registers/memory, logical tick budget"
checks = {
 "C01": dict(engine="diffmon", tech=DIFF, ref="5/C01",
   text="Exploration: hundreds (quick) to tens of thousands (thorough) of generated programs x initial states x all 81 machine configurations, each compared instruction by instruction and in its final state with an independent sequential interpreter. It shows the property on the executions produced, nothing beyond; known design gaps of MVP-6.x/7/8 are attributed by (variant, first-divergence class, trigger) and listed in KNOWN_FINDINGS.txt.",
   note="Trusted: harness/ref.go (cross-checked by C02's table), the hook call sites (audited by tools/audit_ticks.py). Runs attributed to a known finding are not evidence of holding for that (variant, class, trigger)."),
 "C02": dict(engine="isamon", tech="single-instruction oracle: every mnemonic driven as MVP-1 drives it against a table-driven RV32IM definition; boundary lattice exhaustive in pairs + random operands; Context snapshot and declared-register-set checks",
   ref="5/C02", text="Exploration, exhaustive over a 26x26x16 boundary lattice x 9 register patterns per mnemonic, plus 2*10^5 (quick) / 10^7 (thorough) random operand triples. Operand values outside the lattice are sampled, not covered.",
   note="Trusted: the RV32IM table in harness/ref.go (evalIns), written from the ISA manual."),
 "C03": dict(engine="diffmon", tech=DIFF+"; squashed-instruction tracking from decode/flush events (a store performed by a squashed instruction is a violation by itself)", ref="5/C03",
   text="Exploration over generated branch-shadow skeletons (taken and not taken, early and late resolving, all shadow instruction kinds) on MVP-4..8 at all parallelism levels; the shadow family runs on all 81 configurations in both tiers; the evidence counts how many shadow instructions were actually executed / written back before the flush.",
   note="As C01. MVP-6.0/6.1 write wrong-path register results by design (the README introduces the guarantee with 6.2); that and the cache-hit shadow store are known findings."),
 "C04": dict(engine="diffmon", tech=DIFF+"; each configuration repeated 5-20 times to sample map-order-dependent dispatch schedules", ref="5/C04",
   text="Exploration over register-pressure programs (chains, fans, WAW/WAR pairs, mixed-latency producers); the per-instruction lockstep oracle sees a wrong operand even when a later overwrite hides it from the final state.",
   note="As C01. The regdep family has no branches, so no known finding applies to it since the renaming repairs (attributed count 0 in the evidence); programs with branches on MVP-6.3+ can still be attributed to KF-21 when the event log shows a branch resolving between the writes concerned."),
 "C05": dict(engine="diffmon", tech=DIFF+" on memory-walk programs larger than every cache", ref="5/C05",
   text="Exploration over strided walks, ping-pong sets, store/evict/reload and random sub-word accesses in 8-16 KB memories on MVP-3..8 (quick: the least and the most parallel configuration of each variant; thorough: all); every loaded value and the final memory image are compared.",
   note="As C01."),
 "C07": dict(engine="diffmon", tech="runtime monitoring of termination by a logical tick budget hooked into every run loop; panics recovered per case, fatal runtime errors confined to worker processes; error-path family expects an error value", ref="5/C07",
   text="Exploration: 'terminates' is decided as bounded progress (8 x 309 x (executed + length + 64) loop iterations), over stress programs aimed at the drain/flush/pending-fetch machinery and over programs that reach a defined error.",
   note="A loop without a tick would only be caught by the 900 s wall-clock back-stop (reported as inconclusive); tools/audit_ticks.py checks every non-range for-loop under proc/mvp*/ has a tick."),
 "C09": dict(engine="diffmon", tech=DIFF+" on programs with controlled tails before the exit point", ref="5/C09",
   text="Exploration over tails of 1-5 long- and short-latency instructions directly before ret / the end / a jump to an end label on MVP-4..8.",
   note="As C01."),
 "C10": dict(engine="diffmon", tech=DIFF+"; the value each load actually returned is compared (hook H2)", ref="5/C10",
   text="Exploration over store/load/store pairs and triples on the same byte, word and line at distance 1..8 with independent address registers, and hot-line programs, on MVP-4..8.",
   note="As C01. MVP-6.x have no memory-dependence tracking (known finding); there the check mainly reports attributed counts."),
 "C11": dict(engine="parsemon", tech="runtime monitoring of risc.Parse on arbitrary and grammar-mutated text: panic recovery, independent line classifier, operand probing through Run, formatting-invariance comparison", ref="5/C11",
   text="Exploration: 10^5 (quick) / 10^7 (thorough) texts. Totality is checked on every text, the structure clauses on accepted text whose lines classify unambiguously.",
   note="Trusted: the line classifier and the independent parser in harness/ref.go."),
 "C13": dict(engine="compmon", tech="reference-model monitor: comp.LRUCache and cache.LRUCache driven side by side with a map + recency-list model, all protocol-respecting operation sequences up to a bound plus long random histories", ref="5/C13",
   text="Bounded-exhaustive (all sequences up to length 5 quick / 7 thorough on small geometries) plus random histories on the 64B/1KB and 128B/4KB geometries.",
   note="Histories respect the callers' protocol (no fill of a resident line, Write preceded by Get)."),
 "C14": dict(engine="compmon", tech="reference-model monitor: FIFO-with-latency model of SimpleBus/BufferedBus (+ Queue, Broadcast) compared after every operation and on the delivery log", ref="5/C14",
   text="Bounded-exhaustive (all histories up to length 7 quick / 9 thorough, six capacity pairs) plus random histories.",
   note="Producers obey CanAdd; cycles non-decreasing."),
 "C15": dict(engine="compmon", tech="reference-model monitor: scripted write/read/commit/rollback histories on the Context transaction map, the rename table and comp.RAT against a tag-ordered write list", ref="5/C15",
   text="Bounded-exhaustive (all histories up to length 5 quick / 6 thorough over 2 registers x 4 tags in any order, ring lengths 2, 3 and 10) plus random histories of length 200 on ring lengths 2..10.",
   note="For writes that arrive out of tag order 'youngest' is accepted in either reading (most recent in the history, or largest tag)."),
 "C16": dict(engine="isamon", tech="runtime comparison of common/bytes with encoding/binary little-endian in both directions", ref="5/C16",
   text="quick: structured + 4*10^6 random values; thorough: all 2^32 values and all 2^32 byte quadruples (exhaustive).",
   note="Trusted: encoding/binary."),
}
checks.update({
 "C06": dict(engine="msimon", tech="per-cycle invariant monitor on hooked state (snapshot of protocol states, L1/L3 lines, lock counters, commands at every cycle boundary) + bounded-exhaustive exploration of request/flush interleavings on a pipeline-less rig of the real cache controllers", ref="5/C06",
   text="Invariants I1-I5 asserted on every cycle of a few hundred (quick) to 10^4 (thorough) programs on 1-4 cores, and on every step of every rig sequence of up to 3 (quick) / 4 (thorough) read/write/flush requests from 2-3 cores on 2 lines (bounded-exhaustive for that alphabet), plus 1920 (quick) / 60000 (thorough) seeded random rig histories of 8-24 overlapping requests from 3-4 cores.",
   note="Snapshots are taken at cycle boundaries only (tick sites), not mid-cycle. The rig serialises requests per core as the execute units do."),
 "C08": dict(engine="detmon", tech="repeat/isolation monitor: digests of (verdict, cycles, registers, memory) over repeated, reused, concurrent and other-process runs with seeded iterator yields; plus the Go race detector over concurrent machines with reports classified by racing statement", ref="5/C08",
   text="Exploration: 150 (quick) / 3000 (thorough) cases x 12-24 configurations x (8-30 repetitions + reuse + concurrency + 2 child processes); race detector over 10/40 concurrent batches.",
   note="Schedule diversity comes from Go map iteration order (re-randomised per range), GOMAXPROCS 1/16 and seeded yields in the two iterator goroutines; an order dependence needing a rarer coincidence may be missed."),
 "C12": dict(engine="cycmon", tech="analytic latency model of MVP-1 computed from the reference trace; relational (MVP-2 <= MVP-1), lower-bound and metamorphic value-independence checks on all variants", ref="5/C12",
   text="Exploration over 500 (quick) / 20000 (thorough) programs: MVP-1 exact, MVP-2 relational, all variants bounded below and value-independent on paired runs that the reference proves to take the same path and touch the same addresses.",
   note="Latency constants are written in the harness from the documentation, not imported."),
})
notyet = {}
import os
extra = json.load(open('/verif/tools/manifest_extra.json')) if os.path.exists('/verif/tools/manifest_extra.json') else {}
for k,v in extra.get('checks',{}).items():
    checks[k]=v
    notyet.pop(k,None)
m = {
 "version": 1,
 "setup_cmd": "cd /verif/harness && cp /repo/go.sum go.sum && GOFLAGS=-mod=mod GOPROXY=off GOSUMDB=off GOTOOLCHAIN=local go build -tags verif -o /verif/bin/vcheck.setup . && echo setup ok",
 "hooks": {
  "guard": "verif",
  "enable": "go build -tags verif (done by /verif/check for every run, against /repo's working tree)",
  "baseline_off_cmd": "/verif/tools/baseline_off.sh",
  "source_commits": repo_commits('verif hooks'),
  "add_only": True,
 },
 "engines": [
  {"name":"diffmon","path":"harness/diff.go, lockstep.go, families.go, gen.go, ref.go","serves_properties":["C01","C03","C04","C05","C07","C09","C10"],"kind_free_text":"differential runtime monitor with reference interpreter and lockstep commit-log oracle"},
  {"name":"isamon","path":"harness/prop_c02.go, prop_c16.go","serves_properties":["C02","C16"],"kind_free_text":"single-instruction and codec oracles"},
  {"name":"parsemon","path":"harness/prop_c11.go","serves_properties":["C11"],"kind_free_text":"parser totality/structure monitor"},
  {"name":"msimon","path":"harness/prop_c06.go","serves_properties":["C06"],"kind_free_text":"per-cycle MSI invariant monitor and rig explorer"},
  {"name":"detmon","path":"harness/prop_c08.go","serves_properties":["C08"],"kind_free_text":"determinism/isolation monitor and race-log classifier"},
  {"name":"cycmon","path":"harness/prop_c12.go","serves_properties":["C12"],"kind_free_text":"cycle-accounting monitor"},
  {"name":"compmon","path":"harness/prop_c13.go, prop_c14.go, prop_c15.go","serves_properties":["C13","C14","C15"],"kind_free_text":"reference-model monitors for components"},
 ],
 "checks": [],
 "not_applicable": [{"property_id":k,"reason":v} for k,v in sorted(notyet.items())],
 "notes": "All checks: ./check <id> -tier quick|thorough; VERIF_SEED selects the PRNG seed. Exit 0 = held on everything explored (KNOWN-FINDING lines allowed), 1 = VIOLATION, 2 = harness unhealthy. Known findings: KNOWN_FINDINGS.txt, witnesses under findings/.",
}
for e in extra.get('engines',[]):
    m['engines'].append(e)
for k in sorted(checks):
    c=checks[k]
    m["checks"].append({
      "property_id":k,
      "quick_cmd":f"./check {k} -tier quick",
      "thorough_cmd":f"./check {k} -tier thorough",
      "evidence_file":f"/verif/evidence/{k}.json",
      "replay_cmd_template":f"./check {k} -replay {{path}}",
      "engine":c["engine"],
      "level_claimed":{"category":c.get("category","exploration"),"text":c["text"],"design_ref":"DESIGN.md section "+c["ref"]},
      "level_note":c["note"],
      "technique":c["tech"],
    })
json.dump(m,open('/verif/MANIFEST.json','w'),indent=1)
print("checks:",[c['property_id'] for c in m['checks']],"not_applicable:",[n['property_id'] for n in m['not_applicable']])
