#!/bin/bash
# usage: intake.sh <Cxx> <A|B> <package-dir-for-demo> [extra checks...]
# Confirms a seeded change delivered by a sub-agent in /tmp/seeded/<Cxx>/<A|B>/ :
#  1. the demonstration passes on the unchanged tree and fails with the change,
#  2. the project's own suite (guard off) still passes with the change,
#  3. which of our quick checks catch it.
id=$1; ab=$2; pkg=$3; shift 3
src=/tmp/seeded/$id/$ab
root=/tmp/sx/$id$ab
export GOFLAGS=-mod=mod GOPROXY=off GOSUMDB=off GOTOOLCHAIN=local
rm -rf $root; mkdir -p $root
git -C /repo worktree add -q --detach $root/repo HEAD || exit 2
cp $src/demo_test.go $root/repo/$pkg/zz_seeded_demo_test.go
echo "--- demo on the unchanged tree (must pass)"
(cd $root/repo && go test -vet=off -count=1 -run "${DEMO_RUN:-.}" ./$pkg/ 2>&1 | tail -3)
git -C $root/repo apply $src/patch.diff || { echo "PATCH DOES NOT APPLY"; }
echo "--- demo with the change (must fail)"
(cd $root/repo && go test -vet=off -count=1 -run "${DEMO_RUN:-.}" ./$pkg/ 2>&1 | tail -6)
rm -f $root/repo/$pkg/zz_seeded_demo_test.go
echo "--- project suite with the change (guard off)"
VERIF_REPO=$root/repo /verif/tools/baseline_off.sh $root/suite.json 2>&1 | grep "baseline stable_pass\|NOT PASSING" | head -6
git -C /repo worktree remove --force $root/repo; rm -rf $root
echo "--- our checks"
/verif/tools/mutate.sh $id$ab $src/patch.diff $id "$@"
