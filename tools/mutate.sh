#!/bin/bash
# usage: mutate.sh <name> <patch.diff | revert:<commit>> <checks...>
# Applies a change to a scratch worktree of /repo (never to /repo itself), runs the given quick checks from a scratch
# copy of this tree against it, prints which fire, and removes everything again.
name=$1; change=$2; shift 2
root=/tmp/mx/$name
rm -rf $root; mkdir -p $root
git -C /repo worktree add -q --detach $root/repo HEAD || exit 2
if [[ "$change" == revert:* ]]; then
  git -C $root/repo show ${change#revert:} | git -C $root/repo apply -R || { echo "cannot revert"; git -C /repo worktree remove --force $root/repo; exit 2; }
else
  git -C $root/repo apply "$change" || { echo "cannot apply"; git -C /repo worktree remove --force $root/repo; exit 2; }
fi
(cd $root/repo && GOFLAGS=-mod=mod GOPROXY=off GOSUMDB=off GOTOOLCHAIN=local go build ./... ) || { echo "DOES NOT BUILD"; }
here="$(cd "$(dirname "${BASH_SOURCE[0]}")/.." && pwd)"
rsync -a --exclude bin --exclude work --exclude replays --exclude .git $here/ $root/verif/
for c in "$@"; do
  VERIF_REPO=$root/repo $root/verif/check $c -tier ${TIER:-quick} > $root/$c.log 2>&1; rc=$?
  echo "[$name] $c rc=$rc $(grep -c '^VIOLATION' $root/$c.log) violation lines; $(tail -1 $root/$c.log | cut -c1-100)"
  grep -A1 "^VIOLATION" $root/$c.log | grep -v "^--\|^VIOLATION" | head -3 | cut -c1-220
done
git -C /repo worktree remove --force $root/repo
rm -rf $root
