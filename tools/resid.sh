#!/bin/bash
# usage: resid.sh <Cxx> <seed>  -- run a quick check at a seed and summarise unattributed findings
cd "$(dirname "${BASH_SOURCE[0]}")/.."
VERIF_SEED=$2 ./check $1 > /tmp/resid.$1.$2.log 2>&1
tail -1 /tmp/resid.$1.$2.log | cut -c1-110
mkdir -p /tmp/resid
for f in replays/$1-quick-*.json; do [ -f "$f" ] || continue; cp $f /tmp/resid/s$2-$(basename $f); python3 -c "
import json
d=json.load(open('$f'))
t=d.get('triggers') or []
print('   s$2-$(basename $f)',d['config'].get('v'),d['config'].get('eu',''),d['config'].get('wu',''),d['class'],d.get('sub'),d.get('site'),d.get('family'),'|',','.join(x for x in t if x in('waw','war','line-reuse-with-store','shadow-store','shadow-load','shadow-div','taken-transfer','mem-before-taken','has-store')),'|',d['detail'][:140])"; done
