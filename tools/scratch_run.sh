#!/bin/bash
# usage: scratch_run.sh <name> <commit-ish | patch.diff | revert:<commit>> <vcheck args...>
# Developer helper: builds the harness against a scratch worktree of /repo (at a commit, or HEAD plus a patch) and
# runs bin/vcheck with the given arguments against it; removes the worktree afterwards.
name=$1; what=$2; shift 2
root=/tmp/mx/$name
export GOFLAGS=-mod=mod GOPROXY=off GOSUMDB=off GOTOOLCHAIN=local
rm -rf $root; mkdir -p $root/bin
if [ -f "$what" ]; then
  git -C /repo worktree add -q --detach $root/repo HEAD || exit 2
  git -C $root/repo apply "$what" || { echo "cannot apply"; git -C /repo worktree remove --force $root/repo; exit 2; }
elif [[ "$what" == revert:* ]]; then
  git -C /repo worktree add -q --detach $root/repo HEAD || exit 2
  git -C $root/repo show ${what#revert:} | git -C $root/repo apply -R || { echo "cannot revert"; git -C /repo worktree remove --force $root/repo; exit 2; }
else
  git -C /repo worktree add -q --detach $root/repo "$what" || exit 2
fi
here="$(cd "$(dirname "${BASH_SOURCE[0]}")/.." && pwd)"
cd $here/harness
sed "s#=> /repo#=> $root/repo#" go.mod > $root/bin/go.alt.mod; cp $root/repo/go.sum $root/bin/go.alt.sum
go build -modfile=$root/bin/go.alt.mod -tags verif -o $root/bin/vcheck . || { git -C /repo worktree remove --force $root/repo; exit 2; }
cd $here
VERIF_DIR=$here $root/bin/vcheck "$@"; rc=$?
git -C /repo worktree remove --force $root/repo; rm -rf $root
exit $rc
