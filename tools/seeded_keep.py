#!/usr/bin/env python3
# usage: seeded_keep.py <Cxx> <A|B> "<needs>" "<caught_by>" "<note>"
# Copies a confirmed seeded change from /tmp/seeded into /verif/seeded/<id><ab>/ and writes meta.json from the intake log.
import sys, os, json, shutil, re
cid, ab, needs, caught, note = sys.argv[1:6]
src=f'/tmp/seeded/{cid}/{ab}'
dst=f'/verif/seeded/{cid}{ab}'
os.makedirs(dst, exist_ok=True)
for f in ['patch.diff','demo_test.go','README.txt']:
    if os.path.exists(f'{src}/{f}'): shutil.copy(f'{src}/{f}', f'{dst}/{f}')
log=open(f'/tmp/intake/{cid}{ab}.log').read() if os.path.exists(f'/tmp/intake/{cid}{ab}.log') else ''
def section(name):
    m=re.search(r'--- '+re.escape(name)+r'.*?\n(.*?)(?=\n--- |\Z)', log, re.S)
    return m.group(1).strip().split('\n') if m else []
files=[l[len('diff --git a/'):].split(' b/')[0] for l in open(f'{src}/patch.diff') if l.startswith('diff --git a/')]
meta={
 'property': cid,
 'change': cid+'/'+ab,
 'files_touched': files,
 'needs_to_manifest': needs,
 'confirmed': {
   'demo_on_unchanged_tree': [l for l in section('demo on the unchanged tree (must pass)')][-1:] ,
   'demo_with_change': ([l.strip() for l in section('demo with the change (must fail)') if 'FAIL' in l or 'Test:' in l] or [l.strip() for l in section('demo with the change (must fail)')])[:4],
   'project_suite_with_change_guard_off': section('project suite with the change (guard off)')[:1],
   'commands': ['tools/intake.sh %s %s <package dir>  (scratch worktree of /repo under /tmp/sx, removed afterwards)'%(cid,ab)],
 },
 'our_checks_quick_seed1': [l for l in section('our checks') if l.startswith('[')],
 'caught_by': caught,
 'note': note,
}
json.dump(meta, open(f'{dst}/meta.json','w'), indent=1)
print(json.dumps(meta, indent=1)[:1500])
