#!/usr/bin/env python3
# Rewrites section 10 of DESIGN.md from /verif/seeded/*/meta.json
import json,glob,re,os
rows=[]
for f in sorted(glob.glob('/verif/seeded/*/meta.json')):
    m=json.load(open(f))
    rows.append(m)
out=["## 10. Seeded changes (independent sub-agents) and which checks catch them","",
"Each change was written by a fresh sub-agent that saw only the property text and its own scratch worktree of",
"`/repo` (nothing from `/verif`). A change is kept only after I confirmed, in a scratch worktree of my own",
"(`tools/intake.sh`), that its demonstration passes on the unchanged tree and fails with the change and that the",
"project's own suite (guard off) still passes with it (65 504 / 65 504 baseline tests). The checks were then run",
"against the change in a scratch copy (`tools/mutate.sh`; never in `/repo`). Files: `seeded/<id>/patch.diff`,",
"`demo_test.go`, `README.txt` (the agent's own description), `meta.json`.","",
"| change | files | needs, in order to manifest | caught by (quick tier, seed 1 unless noted) | what had to be strengthened |",
"|---|---|---|---|---|"]
for m in rows:
    out.append("| %s | %s | %s | %s | %s |"%(m['change'], ', '.join('`%s`'%x for x in m['files_touched']), m['needs_to_manifest'].replace('|','/'), m['caught_by'].replace('|','/'), m['note'].replace('|','/')))
extra='/verif/seeded/NOT_KEPT.md'
if os.path.exists(extra):
    out.append("")
    out.append(open(extra).read().strip())
s=open('/verif/DESIGN.md').read()
i=s.index("## 10. Seeded changes")
s=s[:i]+"\n".join(out)+"\n"
open('/verif/DESIGN.md','w').write(s)
print(len(rows),"rows")
