#!/bin/bash
# usage: sweep.sh <from-seed> <to-seed> [checks...]; prints one line per (check, seed) plus unattributed findings
cd "$(dirname "${BASH_SOURCE[0]}")/.."
from=$1; to=$2; shift 2
checks=${@:-C01 C02 C03 C04 C05 C06 C07 C08 C09 C10 C11 C12 C13 C14 C15 C16}
for s in $(seq $from $to); do for c in $checks; do
  VERIF_SEED=$s ./check $c > /tmp/sweep.$c.$s.log 2>&1; rc=$?
  echo "rc=$rc $(tail -1 /tmp/sweep.$c.$s.log | cut -c1-120)"
  grep -A1 "^VIOLATION" /tmp/sweep.$c.$s.log | grep -v "^--" | cut -c1-300; mkdir -p /tmp/sweep-replays; for f in replays/$c-quick-*.json; do [ -f "$f" ] && cp $f /tmp/sweep-replays/s$s-$(basename $f); done
  grep "^INCONCLUSIVE\|^UNHEALTHY" /tmp/sweep.$c.$s.log | cut -c1-200
done; done
