#!/bin/bash
# usage: thorough.sh <checks...> -- run thorough tiers sequentially, print timing and last line
cd "$(dirname "${BASH_SOURCE[0]}")/.."
rc_all=0
for c in "$@"; do
  s=$(date +%s)
  ./check $c -tier thorough > /tmp/thorough.$c.log 2>&1; rc=$?
  e=$(date +%s); [ $rc -ne 0 ] && rc_all=1
  echo "rc=$rc t=$((e-s))s $(tail -1 /tmp/thorough.$c.log | cut -c1-160)"
  grep -A1 "^VIOLATION" /tmp/thorough.$c.log | grep -v "^--" | head -6 | cut -c1-300
  mkdir -p /tmp/thorough-replays; cp replays/$c-thorough-*.json /tmp/thorough-replays/ 2>/dev/null
done
exit $rc_all
